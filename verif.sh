#!/bin/sh
# Entry point of every MANIFEST command: (re)builds the driver if needed and hands over to it.
#   ./verif.sh setup                      build the driver and warm the Go build cache
#   ./verif.sh check <property> <tier>    run one check (quick | thorough)
#   ./verif.sh replay <file>              replay a violation
#   ./verif.sh selftest <kind> ...        determinism / sensitivity self-tests of the machinery
set -u
VERIF_DIR="$(cd "$(dirname "$0")" && pwd)"
export VERIF_DIR
export GOFLAGS=-mod=mod GOPROXY=off GOSUMDB=off GOTOOLCHAIN=local GOWORK=off
GO="${VERIF_GO:-go1.26.8}"
BIN="$VERIF_DIR/bin/verif"

build_driver() {
	mkdir -p "$VERIF_DIR/bin" || exit 2
	tmpmod="$(mktemp /var/tmp/verif-drv-XXXXXX.mod)" || exit 2
	cp "$VERIF_DIR/sim/go.mod" "$tmpmod" && cp "$VERIF_DIR/sim/go.sum" "${tmpmod%.mod}.sum" || exit 2
	(cd "$VERIF_DIR/sim" && "$GO" build -modfile="$tmpmod" -o "$BIN" ./cmd/verif)
	rc=$?
	rm -f "$tmpmod" "${tmpmod%.mod}.sum"
	[ $rc -eq 0 ] || { echo "verif.sh: building the driver failed" >&2; exit 2; }
}

needs_build() {
	[ -x "$BIN" ] || return 0
	[ -n "$(find "$VERIF_DIR/sim/cmd" "$VERIF_DIR/sim/proto" "$VERIF_DIR/sim/autoyield" "$VERIF_DIR/sim/go.mod" -newer "$BIN" 2>/dev/null | head -1)" ]
}

case "${1:-}" in
setup)
	build_driver
	exec "$BIN" build
	;;
"")
	echo "usage: $0 setup | check <property> <quick|thorough> | replay <file> | selftest <kind>" >&2
	exit 2
	;;
*)
	if needs_build; then build_driver; fi
	exec "$BIN" "$@"
	;;
esac
