// Package child is the process the driver fans out: one `go test -c` binary per build flavour
// (plain, race, purego). It executes the runs named by $VERIF_SPEC and prints one BEGIN and one END
// line per run on stdout.
package child

import (
	"bytes"
	"encoding/json"
	"fmt"
	"os"
	"runtime"
	"sync/atomic"
	"syscall"
	"testing"
	"time"

	"verif/sim/curlsim"
	"verif/sim/kernel"
	"verif/sim/powsim"
	"verif/sim/proto"
	"verif/sim/slipsim"
)

func emit(prefix string, v any) {
	b, err := json.Marshal(v)
	if err != nil {
		panic(err)
	}
	os.Stdout.Write(append(append([]byte(prefix+" "), b...), '\n'))
}

func propNum(p string) uint64 {
	var n uint64
	for i := 0; i < len(p); i++ {
		n = n*131 + uint64(p[i])
	}
	return n
}

// RunSeed derives the seed of run i of a check: one integer decides everything.
func RunSeed(base uint64, prop, tier string, i int) uint64 {
	return kernel.Mix(base, propNum(prop), propNum(tier), uint64(i))
}

func TestChild(t *testing.T) {
	raw := os.Getenv("VERIF_SPEC")
	if raw == "" {
		t.Skip("VERIF_SPEC not set")
	}
	var spec proto.Spec
	if err := json.Unmarshal([]byte(raw), &spec); err != nil {
		t.Fatal(err)
	}
	var journal func(step, who int, site string)
	if spec.Verbose {
		journal = func(step, who int, site string) {
			os.Stdout.WriteString(fmt.Sprintf("S %d %d %s\n", step, who, site))
		}
	}
	go stallWatchdog(spec.Flavour)
	powsim.Flavour = spec.Flavour
	curlsim.Flavour = spec.Flavour
	if spec.Replay != "" {
		b, err := os.ReadFile(spec.Replay)
		if err != nil {
			t.Fatal(err)
		}
		var rf proto.ReplayFile
		if err := json.Unmarshal(b, &rf); err != nil {
			t.Fatal(err)
		}
		emit("BEGIN", proto.Begin{Prop: rf.Property, Run: rf.Run, Seed: rf.Seed, Flavour: spec.Flavour})
		runActive.Store(rf.Engine == "powsim")
		var end proto.End
		if rf.BySeed {
			for _, idx := range rf.Prelude {
				generate(t, rf.Property, rf.Tier, RunSeed(rf.BaseSeed, rf.Property, rf.Tier, idx), false, nil)
			}
			end = generate(t, rf.Property, rf.Tier, rf.Seed, spec.Verbose, journal)
		} else {
			end = replay(t, &rf, journal)
		}
		runActive.Store(false)
		end.Run, end.Seed = rf.Run, rf.Seed
		emit("END", end)
		return
	}
	for i := spec.From; i < spec.To; i++ {
		seed := RunSeed(spec.BaseSeed, spec.Prop, spec.Tier, i)
		b := proto.Begin{Prop: spec.Prop, Run: i, Seed: seed, Flavour: spec.Flavour}
		emit("BEGIN", b)
		t0 := time.Now()
		runActive.Store(spec.Prop != "C02" && spec.Prop != "C06")
		end := generate(t, spec.Prop, spec.Tier, seed, spec.Verbose, journal)
		runActive.Store(false)
		end.WallUs = time.Since(t0).Microseconds()
		end.Run, end.Seed = i, seed
		if i-spec.From >= 2 && end.Class == "" && !spec.Verbose {
			end.Sample = nil
		}
		emit("END", end)
	}
}

var runActive atomic.Bool

// stallWatchdog lives outside every synctest bubble and watches the kernel's progress counter with the real
// clock. A simulated run that makes no progress for 6 s is stuck in a way the cooperative scheduler cannot
// resolve (an actor spinning on a flag, or blocked on a sync.Mutex, while the goroutine that would release it
// is parked): the child says so and exits with status 3; the driver counts the run as inconclusive.
func stallWatchdog(flavour string) {
	// thresholds: wall-clock for a goroutine blocked on a mutex (it burns no CPU), CPU time of this process for a
	// spinning one — so that a machine too busy to run the child is never mistaken for a stalled run
	wallLimit, cpuLimit := 6*time.Second, 5*time.Second
	if flavour == "auto" || flavour == "autorace" {
		cpuLimit = 15 * time.Second // here a spin is reported as a violation: be generous
	}
	last, since, cpuSince := kernel.Progress.Load(), time.Now(), cpuTime()
	for {
		time.Sleep(250 * time.Millisecond)
		cur := kernel.Progress.Load()
		if !runActive.Load() || cur != last {
			last, since, cpuSince = cur, time.Now(), cpuTime()
			continue
		}
		if time.Since(since) < wallLimit {
			continue
		}
		buf := make([]byte, 1<<20)
		n := runtime.Stack(buf, true)
		why := ""
		switch {
		case bytes.Contains(buf[:n], []byte("sync.(*Mutex).Lock")) || bytes.Contains(buf[:n], []byte("sync.(*RWMutex)")):
			why = "mutex: an actor is blocked on a sync mutex held by a parked actor"
		case cpuTime()-cpuSince >= cpuLimit:
			why = fmt.Sprintf("spin: an actor has used %.0f s of CPU without reaching a yield", (cpuTime() - cpuSince).Seconds())
		case time.Since(since) > 10*time.Minute:
			why = "unknown: no progress for 10 minutes without CPU use"
		default:
			continue
		}
		os.Stdout.WriteString("STALL " + why + "\n")
		os.Stderr.Write(buf[:n])
		os.Exit(3)
	}
}

func cpuTime() time.Duration {
	var ru syscall.Rusage
	if syscall.Getrusage(syscall.RUSAGE_SELF, &ru) != nil {
		return 0
	}
	return time.Duration(ru.Utime.Nano() + ru.Stime.Nano())
}

func generate(t *testing.T, prop, tier string, seed uint64, verbose bool, journal func(step, who int, site string)) proto.End {
	switch prop {
	case "C11", "C12", "C13":
		var cfg *powsim.Config
		switch prop {
		case "C11":
			cfg = powsim.GenC11(seed, tier)
		case "C12":
			cfg = powsim.GenC12(seed, tier)
		default:
			cfg = powsim.GenC13(seed, tier)
		}
		if verbose {
			b, _ := json.Marshal(cfg)
			os.Stdout.WriteString("CONFIG " + string(b) + "\n")
		}
		// what kind of target the run has: should the process die in this run, the driver has to know whether the
		// death falls under the property's clause (C11: "does not crash the process for trivially low targets")
		os.Stdout.WriteString("NOTE " + cfg.TargetNote + "\n")
		return powsim.Run(t, cfg, nil, false, journal)
	}
	if prop == "C02" {
		cfg := slipsim.Gen(seed, tier)
		if verbose {
			b, _ := json.Marshal(cfg)
			os.Stdout.WriteString("CONFIG " + string(b) + "\n")
		}
		return slipsim.Run(cfg)
	}
	if prop == "C06" {
		cfg := curlsim.Gen(seed, tier)
		if verbose {
			b, _ := json.Marshal(cfg)
			os.Stdout.WriteString("CONFIG " + string(b) + "\n")
		}
		return curlsim.Run(cfg)
	}
	t.Fatalf("unknown property %q", prop)
	return proto.End{}
}

func replay(t *testing.T, rf *proto.ReplayFile, journal func(step, who int, site string)) proto.End {
	switch rf.Engine {
	case "powsim":
		var cfg powsim.Config
		if err := json.Unmarshal(rf.Config, &cfg); err != nil {
			t.Fatal(err)
		}
		if rf.Explore {
			return powsim.Run(t, &cfg, nil, false, journal) // under the configuration's own seeded strategy
		}
		return powsim.Run(t, &cfg, rf.Choices, true, journal)
	}
	if rf.Engine == "slipsim" {
		var cfg slipsim.Config
		if err := json.Unmarshal(rf.Config, &cfg); err != nil {
			t.Fatal(err)
		}
		return slipsim.Run(&cfg)
	}
	if rf.Engine == "curlsim" {
		var cfg curlsim.Config
		if err := json.Unmarshal(rf.Config, &cfg); err != nil {
			t.Fatal(err)
		}
		return curlsim.Run(&cfg)
	}
	t.Fatalf("unknown engine %q", rf.Engine)
	return proto.End{}
}
