package ref

import (
	"encoding/binary"
	"math"
	"math/big"

	"golang.org/x/crypto/blake2b"
)

// PowHash returns the 243-trit Curl-P-81 hash the PoW of msg is judged by:
// Curl( b1t6(BLAKE2b-256(msg without its last 8 bytes)) || b1t6(last 8 bytes) || 0 0 0 ).
func PowHash(msg []byte) []int8 {
	if len(msg) < 8 {
		panic("ref: message shorter than a nonce")
	}
	d := blake2b.Sum256(msg[:len(msg)-8])
	in := make([]int8, 0, HashLen)
	in = append(in, B1T6(d[:])...)
	in = append(in, B1T6(msg[len(msg)-8:])...)
	for len(in) < HashLen {
		in = append(in, 0)
	}
	var c Sponge
	c.Absorb(in)
	return c.Squeeze(HashLen)
}

// Msg appends the little-endian nonce to data.
func Msg(data []byte, nonce uint64) []byte {
	m := make([]byte, len(data)+8)
	copy(m, data)
	binary.LittleEndian.PutUint64(m[len(data):], nonce)
	return m
}

var three = big.NewInt(3)

// Pow3 returns 3^k.
func Pow3(k int) *big.Int { return new(big.Int).Exp(three, big.NewInt(int64(k)), nil) }

// V1ScoreExact returns 3^z / msgLen exactly.
func V1ScoreExact(z, msgLen int) *big.Rat {
	return new(big.Rat).SetFrac(Pow3(z), big.NewInt(int64(msgLen)))
}

// V1ScoreFloat returns 3^z / msgLen rounded to the nearest float64.
func V1ScoreFloat(z, msgLen int) float64 {
	f, _ := V1ScoreExact(z, msgLen).Float64()
	return f
}

// V1Meets reports whether the score of a message of msgLen bytes whose hash has z trailing zero trits is
// >= target. The score is the float64 nearest to 3^z/msgLen (the property states Score as a float64
// function and compares it with a float64 target), so the comparison is made on that float.
func V1Meets(z, msgLen int, target float64) bool {
	return V1ScoreFloat(z, msgLen) >= target
}

// V1RequiredZeros returns the smallest z with 3^z/msgLen >= target, or -1 if no z <= 243 does.
func V1RequiredZeros(msgLen int, target float64) int {
	for z := 0; z <= HashLen; z++ {
		if V1Meets(z, msgLen, target) {
			return z
		}
	}
	return -1
}

// Ulps returns the distance between a and b in units in the last place (both finite, same sign or zero).
func Ulps(a, b float64) uint64 {
	ia, ib := int64(math.Float64bits(a)), int64(math.Float64bits(b))
	if ia < 0 {
		ia = math.MinInt64 - ia
	}
	if ib < 0 {
		ib = math.MinInt64 - ib
	}
	if ia > ib {
		return uint64(ia - ib)
	}
	return uint64(ib - ia)
}

// ---- version 2 ----

// MaxHash is 3^243.
var MaxHash = Pow3(HashLen)

var maxU64 = new(big.Int).SetUint64(math.MaxUint64)

// HashInt reads trits as a little-endian base-3 number with digit 2 for trit -1, plus one.
func HashInt(trits []int8) *big.Int {
	h := new(big.Int)
	for i := len(trits) - 1; i >= 0; i-- {
		h.Mul(h, three)
		switch trits[i] {
		case 1:
			h.Add(h, big.NewInt(1))
		case -1:
			h.Add(h, big.NewInt(2))
		}
	}
	return h.Add(h, big.NewInt(1))
}

// IntToTrits is the inverse of HashInt: h in [1, 3^243].
func IntToTrits(h *big.Int) []int8 {
	v := new(big.Int).Sub(h, big.NewInt(1))
	out := make([]int8, HashLen)
	m := new(big.Int)
	for i := 0; i < HashLen; i++ {
		v.QuoRem(v, three, m)
		switch m.Int64() {
		case 1:
			out[i] = 1
		case 2:
			out[i] = -1
		}
	}
	if v.Sign() != 0 {
		panic("ref: hash integer out of range")
	}
	return out
}

// Difficulty returns floor(3^243 / HashInt(trits)).
func Difficulty(trits []int8) *big.Int {
	return new(big.Int).Quo(MaxHash, HashInt(trits))
}

// V2ScoreFromDifficulty returns min(floor(d/msgLen), 2^64-1).
func V2ScoreFromDifficulty(d *big.Int, msgLen int) uint64 {
	q := new(big.Int).Quo(d, big.NewInt(int64(msgLen)))
	if q.Cmp(maxU64) > 0 {
		return math.MaxUint64
	}
	return q.Uint64()
}

// V2Class classifies a hash for the product p = msgLen * target.
type V2Class int

const (
	V2No       V2Class = iota // difficulty < p: must never be returned
	V2Marginal                // difficulty == p: may be returned or skipped
	V2Clear                   // difficulty > p: must not be passed over
)

func (c V2Class) String() string { return [...]string{"no", "marginal", "clear"}[c] }

// V2Classify classifies trits against p.
func V2Classify(trits []int8, p *big.Int) V2Class {
	switch Difficulty(trits).Cmp(p) {
	case -1:
		return V2No
	case 0:
		return V2Marginal
	}
	return V2Clear
}

// V2Product returns msgLen*target and whether it fits 64 bits (the precondition of the property).
func V2Product(msgLen int, target uint64) (*big.Int, bool) {
	p := new(big.Int).Mul(big.NewInt(int64(msgLen)), new(big.Int).SetUint64(target))
	return p, p.Cmp(maxU64) <= 0
}

// V2Sufficient returns the smallest s with 3^s >= p.
func V2Sufficient(p *big.Int) int {
	for s := 0; ; s++ {
		if Pow3(s).Cmp(p) >= 0 {
			return s
		}
	}
}
