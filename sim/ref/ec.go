package ref

import "math/big"

// Short Weierstrass curves y^2 = x^3 + a*x + b over F_p, Jacobian arithmetic in math/big.
// Written for the reference model only: clarity over speed, every special case explicit.

// ECurve holds the domain parameters.
type ECurve struct {
	Name       string
	P, A, B, N *big.Int
	Gx, Gy     *big.Int
	HmacKey    string
}

func hexInt(s string) *big.Int {
	v, ok := new(big.Int).SetString(s, 16)
	if !ok {
		panic("bad hex")
	}
	return v
}

// Secp256k1 (SEC 2, 2.4.1) and NIST P-256 (FIPS 186-4, D.1.2.3).
var (
	Secp256k1 = &ECurve{
		Name:    "secp256k1",
		P:       hexInt("FFFFFFFFFFFFFFFFFFFFFFFFFFFFFFFFFFFFFFFFFFFFFFFFFFFFFFFEFFFFFC2F"),
		A:       big.NewInt(0),
		B:       big.NewInt(7),
		N:       hexInt("FFFFFFFFFFFFFFFFFFFFFFFFFFFFFFFEBAAEDCE6AF48A03BBFD25E8CD0364141"),
		Gx:      hexInt("79BE667EF9DCBBAC55A06295CE870B07029BFCDB2DCE28D959F2815B16F81798"),
		Gy:      hexInt("483ADA7726A3C4655DA4FBFC0E1108A8FD17B448A68554199C47D08FFB10D4B8"),
		HmacKey: "Bitcoin seed",
	}
	Nist256p1 = &ECurve{
		Name:    "P-256",
		P:       hexInt("FFFFFFFF00000001000000000000000000000000FFFFFFFFFFFFFFFFFFFFFFFF"),
		A:       hexInt("FFFFFFFF00000001000000000000000000000000FFFFFFFFFFFFFFFFFFFFFFFC"),
		B:       hexInt("5AC635D8AA3A93E7B3EBBD55769886BC651D06B0CC53B0F63BCE3C3E27D2604B"),
		N:       hexInt("FFFFFFFF00000000FFFFFFFFFFFFFFFFBCE6FAADA7179E84F3B9CAC2FC632551"),
		Gx:      hexInt("6B17D1F2E12C4247F8BCE6E563A440F277037D812DEB33A0F4A13945D898C296"),
		Gy:      hexInt("4FE342E2FE1A7F9B8EE7EB4A7C0F9E162BCE33576B315ECECBB6406837BF51F5"),
		HmacKey: "Nist256p1 seed",
	}
)

// jac is a point in Jacobian coordinates; Z = 0 is the point at infinity.
type jac struct{ X, Y, Z *big.Int }

func (c *ECurve) mod(v *big.Int) *big.Int { return v.Mod(v, c.P) }

func (c *ECurve) infinity() jac { return jac{big.NewInt(1), big.NewInt(1), big.NewInt(0)} }

func (c *ECurve) double(p jac) jac {
	if p.Z.Sign() == 0 || p.Y.Sign() == 0 {
		return c.infinity()
	}
	// S = 4XY^2, M = 3X^2 + aZ^4
	y2 := c.mod(new(big.Int).Mul(p.Y, p.Y))
	s := c.mod(new(big.Int).Mul(big.NewInt(4), new(big.Int).Mul(p.X, y2)))
	z2 := c.mod(new(big.Int).Mul(p.Z, p.Z))
	z4 := c.mod(new(big.Int).Mul(z2, z2))
	m := new(big.Int).Mul(big.NewInt(3), new(big.Int).Mul(p.X, p.X))
	m.Add(m, new(big.Int).Mul(c.A, z4))
	c.mod(m)
	x3 := new(big.Int).Mul(m, m)
	x3.Sub(x3, new(big.Int).Lsh(s, 1))
	c.mod(x3)
	y3 := new(big.Int).Sub(s, x3)
	y3.Mul(y3, m)
	y4 := c.mod(new(big.Int).Mul(y2, y2))
	y3.Sub(y3, new(big.Int).Lsh(y4, 3))
	c.mod(y3)
	z3 := new(big.Int).Mul(p.Y, p.Z)
	z3.Lsh(z3, 1)
	c.mod(z3)
	return jac{x3, y3, z3}
}

func (c *ECurve) add(p, q jac) jac {
	if p.Z.Sign() == 0 {
		return q
	}
	if q.Z.Sign() == 0 {
		return p
	}
	z1z1 := c.mod(new(big.Int).Mul(p.Z, p.Z))
	z2z2 := c.mod(new(big.Int).Mul(q.Z, q.Z))
	u1 := c.mod(new(big.Int).Mul(p.X, z2z2))
	u2 := c.mod(new(big.Int).Mul(q.X, z1z1))
	s1 := c.mod(new(big.Int).Mul(p.Y, new(big.Int).Mul(q.Z, z2z2)))
	s2 := c.mod(new(big.Int).Mul(q.Y, new(big.Int).Mul(p.Z, z1z1)))
	if u1.Cmp(u2) == 0 {
		if s1.Cmp(s2) == 0 {
			return c.double(p)
		}
		return c.infinity() // P + (-P)
	}
	h := c.mod(new(big.Int).Sub(u2, u1))
	r := c.mod(new(big.Int).Sub(s2, s1))
	h2 := c.mod(new(big.Int).Mul(h, h))
	h3 := c.mod(new(big.Int).Mul(h2, h))
	u1h2 := c.mod(new(big.Int).Mul(u1, h2))
	x3 := new(big.Int).Mul(r, r)
	x3.Sub(x3, h3)
	x3.Sub(x3, new(big.Int).Lsh(u1h2, 1))
	c.mod(x3)
	y3 := new(big.Int).Sub(u1h2, x3)
	y3.Mul(y3, r)
	y3.Sub(y3, new(big.Int).Mul(s1, h3))
	c.mod(y3)
	z3 := new(big.Int).Mul(p.Z, q.Z)
	z3.Mul(z3, h)
	c.mod(z3)
	return jac{x3, y3, z3}
}

func (c *ECurve) mult(p jac, k *big.Int) jac {
	r := c.infinity()
	for i := k.BitLen() - 1; i >= 0; i-- {
		r = c.double(r)
		if k.Bit(i) == 1 {
			r = c.add(r, p)
		}
	}
	return r
}

// affine returns the affine coordinates, ok=false for the point at infinity.
func (c *ECurve) affine(p jac) (x, y *big.Int, ok bool) {
	if p.Z.Sign() == 0 {
		return nil, nil, false
	}
	zi := new(big.Int).ModInverse(p.Z, c.P)
	zi2 := c.mod(new(big.Int).Mul(zi, zi))
	x = c.mod(new(big.Int).Mul(p.X, zi2))
	y = c.mod(new(big.Int).Mul(p.Y, new(big.Int).Mul(zi2, zi)))
	return x, y, true
}

func (c *ECurve) base() jac {
	return jac{new(big.Int).Set(c.Gx), new(big.Int).Set(c.Gy), big.NewInt(1)}
}

// Compress serialises an affine point as 0x02/0x03 || X (SEC 1, 2.3.3).
func compress(x, y *big.Int) []byte {
	out := make([]byte, 33)
	out[0] = 2 + byte(y.Bit(0))
	x.FillBytes(out[1:])
	return out
}

// Decompress parses a compressed point.
func (c *ECurve) decompress(b []byte) (jac, bool) {
	if len(b) != 33 || (b[0] != 2 && b[0] != 3) {
		return jac{}, false
	}
	x := new(big.Int).SetBytes(b[1:])
	if x.Cmp(c.P) >= 0 {
		return jac{}, false
	}
	rhs := new(big.Int).Mul(x, x)
	rhs.Mul(rhs, x)
	rhs.Add(rhs, new(big.Int).Mul(c.A, x))
	rhs.Add(rhs, c.B)
	c.mod(rhs)
	y := new(big.Int).ModSqrt(rhs, c.P)
	if y == nil {
		return jac{}, false
	}
	if y.Bit(0) != uint(b[0]&1) {
		y.Sub(c.P, y)
	}
	return jac{x, y, big.NewInt(1)}, true
}

// PublicFromScalar returns serP(point(k)), the compressed public key of the 32-byte scalar k (0 < k < n).
func (c *ECurve) PublicFromScalar(k []byte) []byte {
	x, y, ok := c.affine(c.mult(c.base(), new(big.Int).SetBytes(k)))
	if !ok {
		panic("ref: public key of the zero scalar")
	}
	return compress(x, y)
}

// AddScalarBase returns serP(point(il) + K) and ok=false if the result is the point at infinity.
func (c *ECurve) AddScalarBase(pub []byte, il *big.Int) ([]byte, bool) {
	kp, ok := c.decompress(pub)
	if !ok {
		panic("ref: invalid public key")
	}
	x, y, ok := c.affine(c.add(c.mult(c.base(), il), kp))
	if !ok {
		return nil, false
	}
	return compress(x, y), true
}

// Decompress returns the affine coordinates of a compressed point.
func (c *ECurve) Decompress(b []byte) (x, y *big.Int, ok bool) {
	p, ok := c.decompress(b)
	if !ok {
		return nil, nil, false
	}
	return p.X, p.Y, true
}

// SubScalarBase returns serP(K - point(k)); ok is false if the result is the point at infinity.
func (c *ECurve) SubScalarBase(pub []byte, k *big.Int) ([]byte, bool) {
	neg := new(big.Int).Sub(c.N, new(big.Int).Mod(k, c.N))
	if neg.Cmp(c.N) == 0 {
		return pub, true
	}
	return c.AddScalarBase(pub, neg)
}

// ZeroXPoints returns the compressed encodings of the curve points with x = 0 (two on P-256, none on secp256k1).
func (c *ECurve) ZeroXPoints() [][]byte {
	y := new(big.Int).ModSqrt(new(big.Int).Mod(c.B, c.P), c.P)
	if y == nil {
		return nil
	}
	zero := new(big.Int)
	return [][]byte{compress(zero, y), compress(zero, new(big.Int).Sub(c.P, y))}
}
