// Package ref holds the executable reference models. It imports nothing from the repository
// under test (and nothing from iota.go): everything is written from the published specifications.
package ref

// Curl-P-81, one lane, trit level.

const (
	HashLen   = 243
	StateLen  = 729
	numRounds = 81
)

// truth table of the Curl S-box, indexed by a + 4*b + 5
var truth = [11]int8{1, 0, -1, 2, 1, -1, 0, 2, -1, 1, 0}

// Sponge is a single-lane Curl-P-81 sponge.
type Sponge struct {
	S         [StateLen]int8
	Squeezing bool
}

// Transform applies the 81-round permutation.
func Transform(s *[StateLen]int8) {
	var scratch [StateLen]int8
	for r := 0; r < numRounds; r++ {
		scratch = *s
		idx := 0
		for i := 0; i < StateLen; i++ {
			a := scratch[idx]
			if idx < 365 {
				idx += 364
			} else {
				idx -= 365
			}
			b := scratch[idx]
			s[i] = truth[int(a)+4*int(b)+5]
		}
	}
}

// Absorb absorbs trits (length must be a positive multiple of 243).
func (c *Sponge) Absorb(trits []int8) {
	for len(trits) >= HashLen {
		copy(c.S[:HashLen], trits[:HashLen])
		Transform(&c.S)
		trits = trits[HashLen:]
	}
}

// Squeeze returns n trits (n a multiple of 243).
func (c *Sponge) Squeeze(n int) []int8 {
	out := make([]int8, 0, n)
	for len(out) < n {
		if c.Squeezing {
			Transform(&c.S)
		}
		c.Squeezing = true
		out = append(out, c.S[:HashLen]...)
	}
	return out
}

// Reset returns the sponge to its initial state.
func (c *Sponge) Reset() { *c = Sponge{} }

// TrytesToTrits converts a tryte string (alphabet 9A..Z) to trits.
func TrytesToTrits(s string) []int8 {
	out := make([]int8, 0, 3*len(s))
	for i := 0; i < len(s); i++ {
		var v int
		switch ch := s[i]; {
		case ch == '9':
			v = 0
		case ch >= 'A' && ch <= 'M':
			v = int(ch-'A') + 1
		case ch >= 'N' && ch <= 'Z':
			v = int(ch-'N') - 13
		default:
			panic("bad tryte")
		}
		out = append(out, TryteValueTrits(v)...)
	}
	return out
}

// TryteValueTrits returns the three balanced little-endian trits of v in [-13,13].
func TryteValueTrits(v int) []int8 {
	t := make([]int8, 3)
	for i := 0; i < 3; i++ {
		r := ((v % 3) + 3) % 3 // 0,1,2
		switch r {
		case 0:
			t[i] = 0
		case 1:
			t[i] = 1
			v -= 1
		case 2:
			t[i] = -1
			v += 1
		}
		v /= 3
	}
	return t
}

// B1T6 encodes bytes as 6 balanced trits each (IOTA RFC-0015): the byte is read as a signed
// 8-bit integer v = t1 + 27*t2 with t1, t2 in [-13,13], each written as 3 little-endian trits.
func B1T6(src []byte) []int8 {
	out := make([]int8, 0, 6*len(src))
	for _, b := range src {
		v := int(int8(b))
		// balanced remainder
		t1 := ((v%27)+27+13)%27 - 13
		t2 := (v - t1) / 27
		out = append(out, TryteValueTrits(t1)...)
		out = append(out, TryteValueTrits(t2)...)
	}
	return out
}

// TrailingZeros counts the zero trits at the end of t.
func TrailingZeros(t []int8) int {
	z := 0
	for i := len(t) - 1; i >= 0 && t[i] == 0; i-- {
		z++
	}
	return z
}

// Pack packs up to 64 lanes of trits (all of length n) into bit planes: bit j of l[i] is set
// iff trit i of lane j is <= 0, bit j of h[i] iff it is >= 0. Lanes not supplied read as zero trits
// (both bits set), which is what an unused lane of the batched Curl holds.
func Pack(lanes [][]int8, n int) (l, h []uint64) {
	l = make([]uint64, n)
	h = make([]uint64, n)
	for i := 0; i < n; i++ {
		l[i], h[i] = ^uint64(0), ^uint64(0)
		for j, lane := range lanes {
			switch lane[i] {
			case 1:
				l[i] &^= 1 << uint(j)
			case -1:
				h[i] &^= 1 << uint(j)
			}
		}
	}
	return
}
