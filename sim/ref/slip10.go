package ref

import (
	"crypto/ed25519"
	"crypto/hmac"
	"crypto/sha256"
	"crypto/sha512"
	"encoding/binary"
	"math/big"

	"golang.org/x/crypto/ripemd160" //nolint:staticcheck
)

// SLIP-0010 (and BIP-32 for secp256k1), written from the specification, over an abstract validity
// predicate so that the retry branches can be driven by fault injection:
//
//	reject(candidate)  — injected: the collaborator declares the 32-byte candidate I_L invalid (retry)
//	permanentAt        — injected: the n-th validity decision of an operation fails permanently
//
// on top of the curve's own rule (0 < k < n, sum != 0, point != infinity; none for ed25519).

// SlipCurve describes a curve for the reference model.
type SlipCurve struct {
	Name    string
	HmacKey string
	EC      *ECurve // nil for ed25519
}

var (
	SlipSecp256k1 = &SlipCurve{Name: "secp256k1", HmacKey: "Bitcoin seed", EC: Secp256k1}
	SlipNist256p1 = &SlipCurve{Name: "nist256p1", HmacKey: "Nist256p1 seed", EC: Nist256p1}
	SlipEd25519   = &SlipCurve{Name: "ed25519", HmacKey: "ed25519 seed"}
)

// XKey is an extended key of the model.
type XKey struct {
	Curve     *SlipCurve
	Private   bool
	Key       []byte // 32-byte private key, or 33-byte serialized public key
	ChainCode []byte
	ParentPub []byte // serialized public key of the parent, nil for a master key
	Secret    []byte // for an extended PUBLIC key whose private scalar the model happens to know (only used by Warp)
}

// Faults is the injected behaviour of the collaborator for one operation.
type Faults struct {
	Reject      func(cand []byte) bool
	PermanentAt int                    // 0: never; n: the n-th validity decision of this operation fails permanently
	Permanent   func(cand []byte) bool // the collaborator fails permanently on this candidate
	// Warp, if set, is the candidate mapping of a pluggable curve: the curve uses Warp(kind, I_L, parent scalar) instead
	// of I_L as the key material / additive shift (kind is "master" or "child"; the parent scalar is nil when the
	// curve does not know it). The validity rule of the curve is then applied to the mapped candidate.
	Warp  func(kind string, il []byte, parent *big.Int, parentPub []byte) []byte
	calls int
}

func (f *Faults) warp(kind string, il []byte, parent *big.Int, parentPub []byte) []byte {
	if f.Warp == nil {
		return il
	}
	return f.Warp(kind, il, parent, parentPub)
}

// ErrKind is the outcome class of a model operation.
type ErrKind int

const (
	OK ErrKind = iota
	ErrPermanent
	ErrHardenedFromPublic
	ErrNotDefined // non-hardened derivation on ed25519
)

func (f *Faults) decide(cand []byte) (reject, permanent bool) {
	f.calls++
	if f.PermanentAt > 0 && f.calls == f.PermanentAt {
		return false, true
	}
	if f.Permanent != nil && f.Permanent(cand) {
		return false, true
	}
	if f.Reject != nil && f.Reject(cand) {
		return true, false
	}
	return false, false
}

// Calls returns the number of validity decisions the operation took.
func (f *Faults) Calls() int { return f.calls }

func hmac512(key []byte, parts ...[]byte) []byte {
	h := hmac.New(sha512.New, key)
	for _, p := range parts {
		h.Write(p)
	}
	return h.Sum(nil)
}

func ser32(i uint32) []byte {
	b := make([]byte, 4)
	binary.BigEndian.PutUint32(b, i)
	return b
}

// Public returns the serialized public key of x: serP(point(k)) or 0x00 || A for ed25519.
func (x *XKey) Public() []byte {
	if !x.Private {
		return x.Key
	}
	if x.Curve.EC == nil {
		pub := ed25519.NewKeyFromSeed(x.Key).Public().(ed25519.PublicKey)
		return append([]byte{0}, pub...)
	}
	return x.Curve.EC.PublicFromScalar(x.Key)
}

// Fingerprint returns the first 4 bytes of RIPEMD160(SHA256(parent public key)), zero for a master key.
func (x *XKey) Fingerprint() []byte {
	if x.ParentPub == nil {
		return make([]byte, 4)
	}
	s := sha256.Sum256(x.ParentPub)
	h := ripemd160.New()
	h.Write(s[:])
	return h.Sum(nil)[:4]
}

// Neuter returns the extended public key of x.
func (x *XKey) Neuter() *XKey {
	n := &XKey{Curve: x.Curve, Private: false, Key: x.Public(), ChainCode: x.ChainCode, ParentPub: x.ParentPub, Secret: x.Secret}
	if x.Private {
		n.Secret = x.Key
	}
	return n
}

// Master derives the master key from seed.
func Master(c *SlipCurve, seed []byte, f *Faults) (*XKey, ErrKind) {
	s := seed
	for {
		i := hmac512([]byte(c.HmacKey), s)
		il, ir := i[:32], i[32:]
		rej, perm := f.decide(il)
		if perm {
			return nil, ErrPermanent
		}
		cand := il
		if !rej && c.EC != nil {
			cand = f.warp("master", il, nil, nil)
			k := new(big.Int).SetBytes(cand)
			if k.Sign() == 0 || k.Cmp(c.EC.N) >= 0 {
				rej = true
			}
		}
		if rej {
			s = i
			continue
		}
		return &XKey{Curve: c, Private: true, Key: append([]byte{}, cand...), ChainCode: append([]byte{}, ir...)}, OK
	}
}

// Child derives child number index of x (CKDpriv or CKDpub).
func (x *XKey) Child(index uint32, f *Faults) (*XKey, ErrKind) {
	c := x.Curve
	hardened := index >= 1<<31
	var i []byte
	switch {
	case hardened && !x.Private:
		return nil, ErrHardenedFromPublic
	case hardened:
		i = hmac512(x.ChainCode, []byte{0}, x.Key, ser32(index))
	case c.EC == nil:
		return nil, ErrNotDefined
	default:
		i = hmac512(x.ChainCode, x.Public(), ser32(index))
	}
	parentPub := x.Public()
	for {
		il, ir := i[:32], i[32:]
		rej, perm := f.decide(il)
		if perm {
			return nil, ErrPermanent
		}
		var child, childSecret []byte
		if !rej {
			switch {
			case c.EC == nil:
				child = append([]byte{}, il...)
			case x.Private:
				k := new(big.Int).SetBytes(f.warp("child", il, new(big.Int).SetBytes(x.Key), nil))
				if k.Cmp(c.EC.N) >= 0 {
					rej = true
					break
				}
				k.Add(k, new(big.Int).SetBytes(x.Key))
				k.Mod(k, c.EC.N)
				if k.Sign() == 0 {
					rej = true
					break
				}
				child = k.FillBytes(make([]byte, 32))
			default:
				var parent *big.Int
				if x.Secret != nil {
					parent = new(big.Int).SetBytes(x.Secret)
				}
				k := new(big.Int).SetBytes(f.warp("child", il, parent, x.Key))
				if k.Cmp(c.EC.N) >= 0 {
					rej = true
					break
				}
				p, ok := c.EC.AddScalarBase(x.Key, k)
				if !ok {
					rej = true
					break
				}
				child = p
				if parent != nil {
					sum := new(big.Int).Add(parent, k)
					childSecret = sum.Mod(sum, c.EC.N).FillBytes(make([]byte, 32))
				}
			}
		}
		if rej {
			i = hmac512(x.ChainCode, []byte{1}, ir, ser32(index))
			continue
		}
		return &XKey{Curve: c, Private: x.Private, Key: child, ChainCode: append([]byte{}, ir...), ParentPub: parentPub, Secret: childSecret}, OK
	}
}
