package ref

import (
	"encoding/json"
	"math/big"
	"os"
	"reflect"
	"testing"
)

func TestCurlVectors(t *testing.T) {
	var vs []struct{ In, Hash string }
	b, err := os.ReadFile("testdata/curlp81.json")
	if err != nil {
		t.Fatal(err)
	}
	if err := json.Unmarshal(b, &vs); err != nil {
		t.Fatal(err)
	}
	if len(vs) < 10 {
		t.Fatal("too few vectors")
	}
	for i, v := range vs {
		var c Sponge
		c.Absorb(TrytesToTrits(v.In))
		want := TrytesToTrits(v.Hash)
		if got := c.Squeeze(len(want)); !reflect.DeepEqual(got, want) {
			t.Fatalf("vector %d mismatch", i)
		}
	}
}

func TestB1T6(t *testing.T) {
	for _, c := range []struct {
		b []byte
		s string
	}{{[]byte{1}, "A9"}, {[]byte{0}, "99"}, {[]byte{255}, "Z9"}, {[]byte{127}, "SE"}, {[]byte{128}, "GV"}, {[]byte{0, 1}, "99A9"}} {
		if !reflect.DeepEqual(B1T6(c.b), TrytesToTrits(c.s)) {
			t.Fatalf("b1t6 %v", c.b)
		}
	}
}

func TestHashIntRoundTrip(t *testing.T) {
	for _, h := range []*big.Int{big.NewInt(1), big.NewInt(2), big.NewInt(12345678901), MaxHash, new(big.Int).Sub(MaxHash, big.NewInt(1))} {
		if HashInt(IntToTrits(h)).Cmp(h) != 0 {
			t.Fatalf("round trip %v", h)
		}
	}
}
