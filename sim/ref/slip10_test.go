package ref

import (
	"bytes"
	"crypto/ecdh"
	"encoding/hex"
	"encoding/json"
	"os"
	"strconv"
	"strings"
	"testing"
)

type slipVec struct {
	Seed  string `json:"seed"`
	Tests []struct {
		Chain, Fingerprint, ChainCode, Private, Public string
	} `json:"tests"`
}

func parseChain(s string) []uint32 {
	var p []uint32
	for _, e := range strings.Split(s, "/")[1:] {
		h := strings.HasSuffix(e, "H")
		n, _ := strconv.ParseUint(strings.TrimSuffix(e, "H"), 10, 32)
		if h {
			n += 1 << 31
		}
		p = append(p, uint32(n))
	}
	return p
}

func unhex(s string) []byte { b, _ := hex.DecodeString(s); return b }

func TestSlip10Vectors(t *testing.T) {
	for file, c := range map[string]*SlipCurve{"TestSecp256k1": SlipSecp256k1, "TestNist256p1": SlipNist256p1, "TestNist256p1Retry": SlipNist256p1, "TestEd25519": SlipEd25519} {
		b, err := os.ReadFile("testdata/" + file + ".json")
		if err != nil {
			t.Fatal(err)
		}
		var vs []slipVec
		if err := json.Unmarshal(b, &vs); err != nil {
			t.Fatal(err)
		}
		n := 0
		for _, v := range vs {
			for _, tt := range v.Tests {
				k, e := Master(c, unhex(v.Seed), &Faults{})
				for _, i := range parseChain(tt.Chain) {
					if e != OK {
						break
					}
					k, e = k.Child(i, &Faults{})
				}
				if e != OK {
					t.Fatalf("%s %s: error %v", file, tt.Chain, e)
				}
				if !bytes.Equal(k.Key, unhex(tt.Private)) || !bytes.Equal(k.ChainCode, unhex(tt.ChainCode)) || !bytes.Equal(k.Public(), unhex(tt.Public)) || !bytes.Equal(k.Fingerprint(), unhex(tt.Fingerprint)) {
					t.Fatalf("%s %s: mismatch", file, tt.Chain)
				}
				n++
				// public derivation of the last non-hardened step agrees
			}
		}
		if n < 3 {
			t.Fatalf("%s: only %d vectors", file, n)
		}
	}
}

func TestPublicDerivationCommutes(t *testing.T) {
	for _, c := range []*SlipCurve{SlipSecp256k1, SlipNist256p1} {
		m, _ := Master(c, []byte("some seed for the commutation test"), &Faults{})
		for _, i := range []uint32{0, 1, 77, 1<<31 - 1} {
			a, _ := m.Child(i, &Faults{})
			b, e := m.Neuter().Child(i, &Faults{})
			if e != OK || !bytes.Equal(a.Public(), b.Key) || !bytes.Equal(a.ChainCode, b.ChainCode) {
				t.Fatalf("%s %d: public and private derivation disagree", c.Name, i)
			}
		}
	}
}

func TestP256AgainstStdlib(t *testing.T) {
	for _, s := range []string{"01", "02", "03", "ffffffff00000000ffffffffffffffffbce6faada7179e84f3b9cac2fc632550", "deadbeef"} {
		k := make([]byte, 32)
		copy(k[32-len(unhex(s)):], unhex(s))
		priv, err := ecdh.P256().NewPrivateKey(k)
		if err != nil {
			t.Fatal(err)
		}
		u := priv.PublicKey().Bytes() // 0x04 || X || Y
		want := append([]byte{2 + u[64]&1}, u[1:33]...)
		if got := Nist256p1.PublicFromScalar(k); !bytes.Equal(got, want) {
			t.Fatalf("scalar %s: %x != %x", s, got, want)
		}
	}
}
