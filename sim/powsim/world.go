// Package powsim simulates pow.Mine (v1 and v2) under the seeded scheduler of package kernel.
package powsim

import (
	"context"
	"encoding/json"
	"fmt"
	"math/big"
	"math/bits"
	"runtime/debug"
	"sort"
	"strings"
	"sync"
	"sync/atomic"
	"testing"
	"testing/synctest"
	"time"

	"github.com/iotaledger/iota.go/trinary"
	pow1 "github.com/wollac/iota-crypto-demo/pkg/pow"
	pow2 "github.com/wollac/iota-crypto-demo/pkg/pow/v2"
	"golang.org/x/crypto/blake2b"

	"verif/sim/kernel"
	"verif/sim/proto"
	"verif/sim/ref"
)

const (
	// every scheduler step costs stepTime of simulated time, so that code which polls with timers or tickers is woken
	// while other actors keep computing; context deadlines lie deadlineBase further in the future, so that they expire
	// only when the clock action of the fault plan (or the pre-deadlock sleep) says so
	stepTime = 50 * time.Microsecond
	// idleAfterCancelMax bounds the simulated time a cancelled call may spend with all of its goroutines asleep on timers
	// (nothing runnable, nothing polling): "returns within a short bounded time". A poll interval or back-off of
	// milliseconds to a few seconds stays far below it; it is only reached by code that waits out tens of seconds.
	idleAfterCancelMax = 20 * time.Second
	deadlineBase       = 12 * time.Hour
	fairRounds         = 600 // bounded liveness: Mine must return within this many fair rounds after cancellation
)

type mineRet struct {
	nonce uint64
	err   error
	panic string
}

// wrongInputNonce marks a lane whose input is not digest || nonce || 000 for the data of the call: the oracle gives it the
// all-zero hash (see SimInput). The value is never reached by a worker's own range in a run.
const wrongInputNonce = 0x5EED0BADF00D0001

type inputRec struct {
	base     uint64
	lanes    [64]uint64
	mismatch bool
}

var (
	inputCh    = make(chan inputRec, 1)
	mismatchCh = make(chan struct{}, 1) // a lane's input buffer encoded another nonce than base+lane (informational)
)

var curStub atomic.Pointer[stub] // set by the root before the actors of a run are started

func init() {
	pow1.SimYield = kernel.Yield
	pow2.SimYield = kernel.Yield
	st := func(l, h *[ref.HashLen]uint, nonce uint64) {
		if s := curStub.Load(); s != nil {
			var rec inputRec
			have := false
			kernel.Hidden(func() {
				select {
				case rec = <-inputCh:
					have = true
				default:
				}
			})
			var lanes *[64]uint64
			if have && rec.base == nonce {
				lanes = &rec.lanes
			}
			s.fill(l, h, nonce, lanes)
			logBatch(s, nonce)
		}
	}
	// the batch input hook: which nonce does each lane's buffer really encode? The record travels from SimInput to
	// the SimState call that follows it in the same worker through a one-slot channel inside a hidden region, never
	// through shared memory: anything workers share here would either be reported by the race detector or, worse,
	// order the workers and hide races of the code under test.
	in := func(buf []trinary.Trits, nonce uint64) {
		if curStub.Load() == nil || len(buf) != bits.UintSize {
			return
		}
		st := curStub.Load()
		digest := st.digest
		if st.digests != nil {
			if c := kernel.CurrentCall(); c >= 0 && c < len(st.digests) {
				digest = st.digests[c]
			}
		}
		rec := inputRec{base: nonce}
		for i := 0; i < len(buf); i++ {
			if len(buf[i]) < ref.HashLen {
				return
			}
			n, ok := decodeLaneNonce(buf[i][192:240], nonce+uint64(i))
			rec.lanes[i] = n
			if !ok || n != nonce+uint64(i) {
				rec.mismatch = true
			}
			// the rest of the input: the b1t6 digest of the data and three zero trits. A lane that hashes anything else
			// hashes another message than the one Score will judge; its hash is unrelated to the true one, and the
			// oracle makes that visible by letting exactly such a lane qualify (the all-zero hash).
			if st != nil && digest != nil {
				bad := buf[i][240] != 0 || buf[i][241] != 0 || buf[i][242] != 0
				for t := 0; t < 192 && !bad; t++ {
					bad = buf[i][t] != digest[t]
				}
				if bad {
					rec.lanes[i] = wrongInputNonce
					rec.mismatch = true
				}
			}
		}
		kernel.Hidden(func() {
			select {
			case <-inputCh: // drop a stale record
			default:
			}
			select {
			case inputCh <- rec:
			default:
			}
			if rec.mismatch {
				select {
				case mismatchCh <- struct{}{}:
				default:
				}
			}
		})
	}
	pow1.SimInput, pow2.SimInput = in, in
	pow1.SimState = st
	pow2.SimState = st
	// Score's hash hook: in stub-hash runs Score judges a message by the same seeded oracle the workers saw
	dg := func(digest trinary.Trits, nonce uint64) {
		if s := curStub.Load(); s != nil {
			copy(digest, s.Trits(nonce))
		}
	}
	pow1.SimDigest = dg
	pow2.SimDigest = dg
}

func logBatch(s *stub, nonce uint64) {
	kernel.Hidden(func() {
		select {
		case s.logCh <- nonce:
		default:
		}
	})
}

// Worker objects are reused across the runs of a child process (one per version and worker count), the way an
// application keeps one pow.Worker around: state a change might park in the Worker between calls is then carried from
// one simulated call to the next. Runs are sequential, so there is no sharing between concurrent calls.
var (
	workers1 = map[int]*pow1.Worker{}
	workers2 = map[int]*pow2.Worker{}
)

// dataBufs: the message of a run is written IN PLACE into a buffer that the child keeps per message length, the way an
// application refills one transaction buffer: a change that remembers the caller's slice between calls (instead of
// its contents) then sees the same slice with new contents in a later call.
var dataBufs = map[int][]byte{}
var bigBufs int

func persistentData(d []byte) []byte {
	b, ok := dataBufs[len(d)]
	if !ok {
		b = make([]byte, len(d))
		if len(d) > 4096 {
			if bigBufs >= 48 {
				copy(b, d)
				return b // enough large buffers kept alive in this process
			}
			bigBufs++
		}
		dataBufs[len(d)] = b
	}
	copy(b, d)
	return b
}

func worker1(n int) *pow1.Worker {
	if w, ok := workers1[n]; ok {
		return w
	}
	workers1[n] = pow1.New(n)
	return workers1[n]
}

func worker2(n int) *pow2.Worker {
	if w, ok := workers2[n]; ok {
		return w
	}
	workers2[n] = pow2.New(n)
	return workers2[n]
}

// foreignCtx is a context.Context that does not come from package context: applications wrap their own shutdown
// scopes like this. Code that hands such a context to context.WithCancel / context.AfterFunc makes the context
// package start a goroutine that watches Done(), which is one more thing Mine has to clean up.
type foreignCtx struct {
	done chan struct{}
	err  atomic.Value
	once sync.Once
}

func (c *foreignCtx) Deadline() (time.Time, bool) { return time.Time{}, false }
func (c *foreignCtx) Done() <-chan struct{}       { return c.done }
func (c *foreignCtx) Value(any) any               { return nil }
func (c *foreignCtx) Err() error {
	if e, ok := c.err.Load().(error); ok {
		return e
	}
	return nil
}
func (c *foreignCtx) cancel() {
	c.once.Do(func() {
		c.err.Store(context.Canceled)
		close(c.done)
	})
}

// neverCtx is a caller's own context type that can never be cancelled (nil Done channel), like context.Background().
type neverCtx struct{}

func (neverCtx) Deadline() (time.Time, bool) { return time.Time{}, false }
func (neverCtx) Done() <-chan struct{}       { return nil }
func (neverCtx) Err() error                  { return nil }
func (neverCtx) Value(any) any               { return nil }

type neverKey struct{}

// run state shared by the helpers below (root goroutine only)
type world struct {
	cfg      *Config
	k        *kernel.Sched
	replay   bool
	res      proto.End
	faults   map[string]int
	probes   map[string]int
	passed   map[string]int // site -> number of times an actor was released from it
	events   []string       // coarse order of first occurrences
	seen     map[string]bool
	batches  []uint64 // base nonces of the batches workers tested (stub mode)
	found    map[int]bool
	sent     int
	inMine   bool
	returned bool
	ret      mineRet
	retStep  int

	cancelDelivered bool
	cancelStep      int
	cancelFired     bool // explicit canceller has run
	clockFired      bool
	preCancelled    bool
	forcedCancel    bool
	simNs           int64
	idleAfterCancel time.Duration
	followDone      bool
	inconclusive    bool
	verbose         bool
	hadBatch        map[int]bool
	journal         func(step, who int, site string)
	step            time.Duration // simulated time per scheduler step in this run
}

func (w *world) event(e string) {
	if !w.seen[e] {
		w.seen[e] = true
		w.events = append(w.events, e)
	}
}

func (w *world) violate(class, msg string, sig map[string]any) {
	if w.res.Class != "" {
		return // first violation wins
	}
	w.res.Class, w.res.Message, w.res.Signature = class, msg, sig
}

func eligible(t Trigger, w *world, parked []kernel.Enabled) bool {
	switch t.Mode {
	case "step":
		return len(w.k.Trace) >= t.Step
	case "passed":
		return w.passed[t.Site] >= t.Nth
	case "parked":
		n := w.passed[t.Site]
		for _, e := range parked {
			if e.Site == t.Site {
				n++
			}
		}
		return n >= t.Nth
	}
	return true
}

// Run executes one simulated Mine call. choices != nil replays a recorded schedule.
func Run(t *testing.T, cfg *Config, choices []int, replayMode bool, journal func(step, who int, site string)) (end proto.End) {
	if cfg.Before != nil {
		// the call made before the judged one: always under its own seeded strategy (it is part of the configuration,
		// not of the recorded schedule); judged like any other call
		if pre := Run(t, cfg.Before, nil, false, nil); pre.Class != "" {
			pre.Message = "in the call made just before the judged one: " + pre.Message
			return pre
		}
		defer func() {
			if end.Probes != nil {
				end.Probes["call_preceded_by_a_related_call"] = 1
			}
		}()
	}
	w := &world{cfg: cfg, replay: replayMode, faults: map[string]int{}, probes: map[string]int{}, passed: map[string]int{}, seen: map[string]bool{}, found: map[int]bool{}, hadBatch: map[int]bool{}}
	w.res.Tags = map[string]string{}
	w.journal, w.verbose = journal, journal != nil
	bubblePanic := ""
	func() {
		defer func() {
			if r := recover(); r != nil {
				bubblePanic = fmt.Sprint(r)
			}
		}()
		synctest.Test(t, func(t *testing.T) {
			if cfg.Crowd > 1 {
				w.simulateCrowd(choices)
			} else {
				w.simulate(choices)
			}
		})
	}()
	curStub.Store(nil)
	if bubblePanic != "" {
		if strings.Contains(bubblePanic, "deadlock") {
			// the root returned while goroutines of the run were still blocked; normally already reported
			if w.res.Class == "" && !w.inconclusive {
				w.violate("leak:blocked-at-bubble-end", bubblePanic, nil)
			}
		} else {
			w.violate("panic:simulator", bubblePanic, nil)
		}
	}
	w.finish()
	return w.res
}

func (w *world) simulate(choices []int) {
	cfg := w.cfg
	base := kernel.Census()

	var st *stub
	if cfg.Hash == "stub" {
		st = newStub(cfg.Stub, cfg.craftCtx())
		st.special[wrongInputNonce] = make([]int8, ref.HashLen)
		d := blake2b.Sum256(cfg.data())
		st.digest = ref.B1T6(d[:])
	}
	curStub.Store(st)

	// the context of the call
	var (
		ctx     context.Context
		cancels []context.CancelFunc
		cancel  context.CancelFunc
	)
	start := time.Now()
	hasDeadline := !cfg.Background && (cfg.Fault.Kind == "deadline" || cfg.Fault.Kind == "both")
	switch {
	case cfg.Background:
		// contexts that can never be cancelled: Done() is nil. context.Background() is only one of them.
		switch cfg.NeverDone {
		case "todo":
			ctx = context.TODO()
		case "value":
			ctx = context.WithValue(context.Background(), neverKey{}, "v")
		case "withoutcancel":
			parent, pc := context.WithCancel(context.Background())
			ctx = context.WithoutCancel(parent)
			pc() // the parent's cancellation must not reach it
		case "own":
			ctx = neverCtx{}
		default:
			ctx = context.Background()
		}
		if cfg.NeverDone != "" {
			w.probes["never_cancellable_context_other_than_background"] = 1
		}
	case hasDeadline:
		var c1 context.CancelFunc
		ctx, c1 = context.WithDeadline(context.Background(), start.Add(deadlineBase+time.Duration(cfg.Fault.DeadlineMs)*time.Millisecond))
		cancels = append(cancels, c1)
		ctx, cancel = context.WithCancel(ctx)
		cancels = append(cancels, cancel)
	case cfg.ForeignCtx:
		fc := &foreignCtx{done: make(chan struct{})}
		ctx, cancel = fc, fc.cancel
		cancels = append(cancels, cancel)
	default:
		ctx, cancel = context.WithCancel(context.Background())
		cancels = append(cancels, cancel)
	}
	if cfg.Fault.Kind == "pre" && cancel != nil {
		cancel()
		w.preCancelled, w.cancelDelivered = true, true
		w.faults["pre_cancel"]++
		w.event("C")
	}

	if autoFlavour {
		kernel.EnableAuto()
		kernel.SetSelectSeed(cfg.Strat.Seed)
	}
	k := kernel.New(cfg.Strat.build(), choices, w.replay)
	w.k = k
	k.Journal = w.journal
	defer k.Unbind()

	resCh := make(chan mineRet, 1)
	data := persistentData(cfg.data())
	// the Worker object kept by this process for this worker count: looked up here, by the root, not by the caller
	// actor — the table is the simulator's own, and two caller actors of different runs are not ordered with each
	// other when the earlier run never returned (reported by the autorace flavour against a seeded change)
	var wk1 *pow1.Worker
	var wk2 *pow2.Worker
	if cfg.Version == 1 {
		wk1 = worker1(cfg.Workers)
	} else {
		wk2 = worker2(cfg.Workers)
	}
	// caller actor
	go func() {
		defer func() {
			if r := recover(); r != nil {
				resCh <- mineRet{panic: fmt.Sprintf("%v\n%s", r, debug.Stack())}
			}
		}()
		kernel.Yield("caller.start", Caller)
		var n uint64
		var err error
		if cfg.Version == 1 {
			n, err = wk1.Mine(ctx, data, cfg.targetF())
		} else {
			n, err = wk2.Mine(ctx, data, cfg.TargetBits)
		}
		resCh <- mineRet{nonce: n, err: err}
	}()
	// canceller actor: present whenever the context can be cancelled and is not cancelled yet
	hasCanceller := cancel != nil && !w.preCancelled
	if hasCanceller {
		go func() {
			kernel.Yield("cancel.fire", Canceller)
			cancel()
		}()
	}
	wantCancel := cfg.Fault.Kind == "cancel" || cfg.Fault.Kind == "both"
	// bystanders: other goroutines of the application evaluate Score (a pure function of its argument, as far as any
	// caller can tell) while the Mine call is running; where in the schedule is the strategy's choice. Each result is
	// compared with the reference afterwards, and in the race flavours nothing orders a bystander with the workers or
	// with the other bystander, so state that Score shares with Mine or with itself is reported as the race it is.
	bysCh := make(chan bysRes, 4)
	for b := 0; b < cfg.ScoreBystanders && b < 2; b++ {
		who := Bystander - b
		n := kernel.Mix(cfg.Strat.Seed, 0xb157a, uint64(b))
		if b == 0 && cfg.Stub != nil && len(cfg.Stub.Specials) > 0 {
			n = cfg.Stub.Specials[len(cfg.Stub.Specials)-1].Nonce
		}
		msg := ref.Msg(cfg.data(), n)
		version := cfg.Version
		go func() {
			kernel.Yield("bystander.score", who)
			r := bysRes{nonce: n}
			if version == 1 {
				r.f = pow1.Score(msg)
			} else {
				r.u = pow2.Score(msg)
			}
			kernel.Hidden(func() { bysCh <- r })
		}()
		w.probes["score_evaluated_by_another_goroutine_during_mine"] = 1
	}

	graceLeft := -1 // steps left under the run's strategy after the cancellation; -1: not started
	fair := false   // fair (round-robin) phase
	wraps := 0      // completed fair rounds since the fair phase began
	hangJumped := false
	censusDone := false
	timersTried := false
	censusSleeps := 0
	lockSpins := 0
	parkedSince := map[int]int{}
	afterReturn := map[int]int{} // steps taken by each actor after Mine returned
	hardCap := cfg.StepCap + 4000
	if cfg.HardCap > 0 {
		hardCap = cfg.HardCap
	}

	step := stepTime
	if cfg.StepMs > 0 && !hasDeadline {
		step = time.Duration(cfg.StepMs) * time.Millisecond
		w.probes["hours_of_simulated_mining"] = 1
	}
	w.step = step
	for {
		k.Quiesce()
		kernel.HiddenSleep(step)
		k.Quiesce()
		if st != nil {
			drainLog(st, w)
		}
		if !w.returned {
			select {
			case r := <-resCh:
				w.returned, w.ret, w.retStep = true, r, len(k.Trace)
				w.event("R")
			default:
			}
		}
		parked := k.Parked()
		for _, e := range parked {
			if _, ok := parkedSince[e.Who]; !ok {
				parkedSince[e.Who] = len(k.Trace)
			}
			if e.Site == "worker.found" {
				w.found[e.Who] = true
			}
		}
		if len(w.found) >= 2 && !w.returned {
			w.faults["simultaneous_finds"] = 1
		}
		if w.returned && cfg.FollowUp && !w.followDone {
			// the next call on the same Worker, made right after this one has returned - while this call's watcher, which
			// has seen the cancellation, is still on its way out ("finishes immediately" is not "has finished")
			w.followDone = true
			held := false
			for _, e := range parked {
				if e.Who == Watcher && e.Site == "watcher.cancelled" {
					held = true
				}
			}
			if held && w.ret.err == nil && w.ret.panic == "" {
				w.followUp(k, st, data, wk1, wk2)
				if w.res.Class != "" || w.res.Diverged != "" || w.inconclusive {
					break
				}
				continue
			}
		}
		capCancel := hasCanceller && cfg.Prop == "C13"
		if len(k.Trace) >= cfg.StepCap && !w.returned && !w.cancelDelivered && capCancel && !w.cancelFired && !w.replay && !w.forcedCancel {
			w.forcedCancel = true
			w.probes["step_cap_cancel"] = 1
		}
		if len(k.Trace) == cfg.StepCap && !w.returned && !capCancel && !w.replay {
			// this run is meant to end with a find: end any unfairness of the strategy instead of cancelling
			k.SetStrategy(kernel.RoundRobin{})
			w.probes["step_cap_fair"] = 1
		}

		// which actions are enabled
		var en []kernel.Enabled
		var forced *kernel.Enabled
		for _, e := range parked {
			if e.Who == Canceller && !w.replay {
				elig := w.forcedCancel || (wantCancel && eligible(cfg.Fault.Cancel, w, parked))
				if !elig {
					continue // held back
				}
				if w.forcedCancel || cfg.Fault.Cancel.Force {
					e2 := e
					forced = &e2
				}
			}
			en = append(en, e)
		}
		if hasDeadline && !w.clockFired {
			ce := kernel.Enabled{Who: Clock, Site: "clock.advance"}
			if w.replay {
				en = append(en, ce)
			} else if eligible(cfg.Fault.Clock, w, parked) {
				en = append(en, ce)
				if cfg.Fault.Clock.Force && forced == nil {
					forced = &ce
				}
			}
		}
		sort.Slice(en, func(i, j int) bool { return en[i].Who < en[j].Who })

		if w.returned && !censusDone && onlyHeld(en, parked) {
			// Mine has returned and nothing it started can still move: take the census now,
			// before a late cancellation could help a forgotten goroutine out.
			if censusSleeps < 3 && len(w.leaked(base, hasCanceller && !w.cancelFired)) > 0 {
				// something Mine started is still there: give it one simulated second (a goroutine that is merely
				// sleeping on a timer "finishes immediately" in the sense of the property), then look again
				censusSleeps++
				before := time.Now()
				kernel.HiddenSleep(time.Second)
				w.simNs += int64(time.Since(before))
				if hasDeadline && !w.clockFired && time.Since(start) > deadlineBase+time.Duration(cfg.Fault.DeadlineMs)*time.Millisecond {
					w.clockFired = true
					w.delivered("deadline_expiry")
				}
				continue
			}
			censusDone = true
			w.censusCheck(base, hasCanceller && !w.cancelFired)
			if hasCanceller && !w.cancelFired && !w.replay {
				w.forcedCancel = true // cancel after return: one more legal instant
				continue
			}
		}
		if len(en) == 0 && !w.returned && !timersTried {
			// nothing is parked and Mine has not returned: before calling it a deadlock let the fake clock run, in
			// case something is sleeping on a timer (the code under test has none today; a context deadline that
			// has not been fired yet expires here too, which is what would happen in real time)
			timersTried = true
			// The clock runs in growing slices, and stops as soon as somebody has woken: the simulated time that passes
			// here AFTER the cancellation was delivered is time in which every goroutine of the call did nothing but
			// wait for a timer - the cancellation had been delivered and nobody was even looking (idleAfterCancel).
			woke := false
			idle := time.Duration(0)
			nParked := len(k.Parked()) // a held-back canceller may be parked all along
			for _, d := range idleSlices {
				before := time.Now()
				kernel.HiddenSleep(d)
				k.Quiesce()
				el := time.Since(before)
				w.simNs += int64(el)
				if w.cancelDelivered {
					idle += el
				}
				if hasDeadline && !w.clockFired && time.Since(start) > deadlineBase+time.Duration(cfg.Fault.DeadlineMs)*time.Millisecond {
					w.clockFired = true
					w.delivered("deadline_expiry")
				}
				if len(k.Parked()) != nParked || len(resCh) > 0 {
					woke = true
					break
				}
			}
			if hasDeadline && !w.clockFired {
				w.clockFired = true
				w.delivered("deadline_expiry")
			}
			if woke {
				// (if nobody ever woke, nobody was waiting for a timer: that is a deadlock, decided below)
				w.probes["woken_by_a_timer"] = 1
				w.idleAfterCancel += idle
			}
			w.probes["clock_ran_before_deadlock_verdict"] = 1
			if w.idleAfterCancel > idleAfterCancelMax {
				w.violate("slow-after-cancel", fmt.Sprintf("after the cancellation was delivered at step %d every goroutine of the call sat on timers for %v of simulated time in total, with nothing else to run, before Mine returned (if it has): that is not \"a short bounded time\"", w.cancelStep, w.idleAfterCancel), nil)
				break
			}
			continue
		}
		if len(en) == 0 {
			if !w.returned {
				w.violate("deadlock", "no actor is enabled while Mine is in flight; "+describeBlocked(base), nil)
			}
			break
		}
		// auto flavour: actors waiting for a sync.Mutex or a channel are parked at a wait site and stay enabled (when
		// picked they try again). If nothing but such waiters is left while Mine is in flight, the clock is run once (one
		// of them may be waiting for a timer) and then, if several rounds of polls change nothing, that is a deadlock.
		allWaiting := !w.returned
		for _, e := range en {
			if !kernel.IsWaitSite(e.Site) {
				allWaiting = false
			}
		}
		if allWaiting {
			if lockSpins == 0 {
				before := time.Now()
				kernel.HiddenSleep(time.Hour)
				w.simNs += int64(time.Since(before))
				k.SetStrategy(kernel.RoundRobin{})
			}
			lockSpins++
			if lockSpins > 4*len(en)+8 {
				w.violate("deadlock", "every remaining actor is waiting for a lock or a channel that nobody will ever release / serve while Mine is in flight; "+describeBlocked(base), nil)
				break
			}
		} else {
			lockSpins = 0
		}
		if len(k.Trace) >= hardCap && !w.returned && !w.cancelDelivered {
			if st != nil && cfg.Stub.AllQualify {
				w.violate("no-progress", fmt.Sprintf("Mine did not return within %d steps although every nonce qualifies", len(k.Trace)), nil)
			} else {
				w.inconclusive = true
				w.probes["no_find_within_cap"] = 1
			}
			break
		}

		// bounded liveness after cancellation: a seed-chosen number of further steps under the run's
		// strategy, then fair rounds
		if w.cancelDelivered && !w.returned && !fair && !w.replay {
			if graceLeft < 0 {
				graceLeft = cfg.Fault.Grace
			}
			if graceLeft == 0 {
				fair = true
				k.SetStrategy(kernel.RoundRobin{})
			} else {
				graceLeft--
			}
		}

		var e kernel.Enabled
		if forced != nil && !w.replay {
			e = k.PickForced(*forced)
		} else {
			var ok bool
			e, ok = k.Pick(en)
			if !ok {
				w.res.Diverged = k.Diverged
				break
			}
		}
		if w.cancelDelivered && !w.returned {
			// rounds are counted from the delivery of the cancellation on (the at most 50 steps the strategy
			// keeps control are included, which only makes the bound a little stricter than fairRounds fair
			// rounds); this makes the verdict a function of the recorded schedule alone, so it replays
			if k.Wrapped() {
				wraps++
			}
			if wraps > fairRounds+cfg.Fault.Grace && !hangJumped {
				// rounds are not time: code that honours the cancellation after a short pause on a timer (a debounce, a
				// poll interval) may sit through any number of rounds while other goroutines keep stepping at 50 us each.
				// Before the verdict the clock is moved by the same allowance as in the idle case, once, and the rounds
				// start again.
				hangJumped = true
				wraps = 0
				before := time.Now()
				kernel.HiddenSleep(idleAfterCancelMax)
				k.Quiesce()
				w.simNs += int64(time.Since(before))
				w.probes["clock_moved_before_hang_verdict"] = 1
			}
			if wraps > fairRounds+cfg.Fault.Grace {
				w.violate("hang-after-cancel", fmt.Sprintf("Mine did not return within %d fair rounds after the cancellation was delivered at step %d", fairRounds, w.cancelStep), nil)
				break
			}
		}
		if w.returned && e.Who != Canceller && e.Who != Clock {
			afterReturn[e.Who]++
			if afterReturn[e.Who] > 64 {
				w.violate("leak:running-after-return", fmt.Sprintf("actor %d (last at %s) is still running %d steps after Mine returned", e.Who, e.Site, afterReturn[e.Who]), nil)
				break
			}
		}
		w.passed[e.Site]++
		timersTried = false
		if since, ok := parkedSince[e.Who]; ok {
			if e.Who == Watcher && len(k.Trace)-since > 12 {
				w.faults["watcher_starved"] = 1
			}
			if e.Who > 0 && len(k.Trace)-since > 20 {
				w.faults["worker_starved"] = 1
			}
			delete(parkedSince, e.Who)
		}
		w.observe(e)
		switch e.Who {
		case Clock:
			w.clockFired = true
			d := time.Until(start.Add(deadlineBase+time.Duration(cfg.Fault.DeadlineMs)*time.Millisecond)) + time.Millisecond
			before := time.Now()
			kernel.HiddenSleep(d)
			w.simNs += int64(time.Since(before))
			w.delivered("deadline_expiry")
		case Canceller:
			w.cancelFired = true
			k.Wake(e.Who)
			w.delivered("cancel")
		default:
			k.Wake(e.Who)
		}
	}
	if w.returned && w.res.Class == "" && w.res.Diverged == "" {
		// Mine has returned and everything it started is gone: let ten simulated minutes pass, in case something was
		// left on a timer (a time.AfterFunc that fires into closed channels kills the process; one that starts
		// goroutines shows up in the census)
		before := time.Now()
		kernel.HiddenSleep(10 * time.Minute)
		w.simNs += int64(time.Since(before))
		k.Quiesce()
		if late := w.leaked(base, false); len(late) > 0 {
			w.violate("leak:started-by-a-timer-after-return", fmt.Sprintf("%d goroutine(s) appeared after Mine had returned, when simulated time advanced:\n--- %s", len(late), trimStack(late[0])), nil)
		}
	}
	for _, c := range cancels {
		c()
	}
	w.judgeBystanders(st, bysCh)
	w.res.Steps = len(k.Trace)
	w.res.Switches = k.Switches
	w.res.TraceHash = fmt.Sprintf("%016x", k.TraceHash())
	w.judge(st)
	if w.res.Class != "" || w.res.Diverged != "" || w.verbose {
		w.res.Choices = k.Choices()
	}
	w.sampleTrace()
}

// idleSlices: how the clock is let run when nothing is enabled (sums to a little more than two days).
var idleSlices = []time.Duration{time.Millisecond, 9 * time.Millisecond, 90 * time.Millisecond, 900 * time.Millisecond,
	4 * time.Second, 5 * time.Second, 20 * time.Second, 30 * time.Second, 9 * time.Minute, 50 * time.Minute, 47 * time.Hour}

// followUp makes a second Mine call on the same Worker object - same message, same target, context.Background() - while
// what the first call left behind (its watcher, parked right before its store) is still there, and schedules the two
// together. The first call found a nonce, so the second can; its context can never be cancelled, so it must not
// report a cancellation.
func (w *world) followUp(k *kernel.Sched, st *stub, data []byte, wk1 *pow1.Worker, wk2 *pow2.Worker) {
	cfg := w.cfg
	w.probes["second_call_while_the_first_calls_watcher_is_on_its_way_out"] = 1
	res2 := make(chan mineRet, 1)
	go func() {
		defer func() {
			if r := recover(); r != nil {
				res2 <- mineRet{panic: fmt.Sprintf("%v\n%s", r, debug.Stack())}
			}
		}()
		kernel.Yield("caller.start", Caller)
		var n uint64
		var err error
		if cfg.Version == 1 {
			n, err = wk1.Mine(context.Background(), data, cfg.targetF())
		} else {
			n, err = wk2.Mine(context.Background(), data, cfg.TargetBits)
		}
		res2 <- mineRet{nonce: n, err: err}
	}()
	k.SetStrategy(kernel.Uniform{R: kernel.NewRand(cfg.Strat.Seed ^ 0xf0110)})
	var r mineRet
	for steps := 0; ; steps++ {
		k.Quiesce()
		kernel.HiddenSleep(w.step)
		k.Quiesce()
		if st != nil {
			drainLog(st, w)
		}
		got := false
		select {
		case r = <-res2:
			got = true
		default:
		}
		if got {
			break
		}
		var en []kernel.Enabled
		for _, e := range k.Parked() {
			if e.Who != Canceller {
				en = append(en, e)
			}
		}
		if len(en) == 0 {
			w.violate("deadlock", "a second Mine call on the same Worker, made right after the first had returned, does not return and nothing is enabled; "+describeBlocked(nil), nil)
			return
		}
		if steps == 800 {
			k.SetStrategy(kernel.RoundRobin{})
		}
		if steps > 8000 {
			w.inconclusive = true
			return
		}
		e, ok := k.Pick(en)
		if !ok {
			w.res.Diverged = k.Diverged
			return
		}
		k.Wake(e.Who)
	}
	k.SetStrategy(kernel.RoundRobin{})
	sig := map[string]any{"version": cfg.Version, "hash": cfg.Hash}
	switch {
	case r.panic != "":
		first := r.panic
		if j := strings.IndexByte(first, '\n'); j > 0 {
			first = first[:j]
		}
		w.violate("panic:"+first, "second Mine call on the same Worker: "+r.panic, sig)
	case r.err != nil:
		w.violate("cancelled-without-cancel", fmt.Sprintf("a second Mine call on the same Worker, made with context.Background() right after the first call had returned its nonce (the first call's context had been cancelled and its watcher was still on its way out), returned the error %q: its context can never be cancelled", r.err), sig)
	default:
		w.probes["second_call_returned_a_nonce"] = 1
	}
}

// onlyHeld reports whether nothing but a held-back canceller remains parked.
func onlyHeld(en, parked []kernel.Enabled) bool {
	for _, e := range parked {
		if e.Who != Canceller {
			return false
		}
	}
	for _, e := range en {
		if e.Who != Canceller {
			return false
		}
	}
	return true
}

func (w *world) delivered(kind string) {
	if !w.cancelDelivered {
		w.cancelDelivered = true
		w.cancelStep = len(w.k.Trace)
		w.event("C")
	}
	switch {
	case w.returned:
		w.faults[kind+"_after_return"]++
	case !w.inMine:
		w.faults[kind+"_before_call"]++
	default:
		w.faults[kind+"_mid"]++
		if len(w.found) > 0 || w.sent > 0 {
			w.faults["cancel_after_find"]++
		}
		if w.seen["J"] {
			w.faults["cancel_after_join"]++
		}
	}
}

// observe updates the run's bookkeeping for the action about to be released.
func (w *world) observe(e kernel.Enabled) {
	switch e.Site {
	case "caller.start":
		w.inMine = true
	case "worker.found":
		w.found[e.Who] = true
		w.event("F")
	case "worker.send":
		w.sent++
		if w.sent == w.cfg.Workers {
			w.probes["all_workers_sent"] = 1
		}
	case "watcher.cancelled":
		w.event("W")
		if w.seen["J"] {
			w.probes["watcher_woke_after_join"] = 1
		}
	case "mine.joined":
		w.event("J")
	case "worker.exit":
		if w.passed["worker.exit"] == w.cfg.Workers {
			w.event("X")
		}
		if !w.workerHadBatch(e.Who) {
			w.probes["worker_saw_done_first_poll"] = 1
		}
	case "worker.batch":
		w.markBatch(e.Who)
	}
}

func (w *world) workerHadBatch(who int) bool { return w.hadBatch[who] }
func (w *world) markBatch(who int)           { w.hadBatch[who] = true }

func drainLog(st *stub, w *world) {
	kernel.Hidden(func() {
		for {
			select {
			case n := <-st.logCh:
				w.batches = append(w.batches, n)
				continue
			default:
			}
			return
		}
	})
}

func describeBlocked(base map[string]string) string {
	ex := kernel.Extra(base, kernel.Census())
	var b strings.Builder
	fmt.Fprintf(&b, "%d goroutines of the run remain:", len(ex))
	for _, s := range ex {
		b.WriteString("\n--- ")
		b.WriteString(trimStack(s))
	}
	return b.String()
}

func trimStack(s string) string {
	lines := strings.Split(s, "\n")
	if len(lines) > 9 {
		lines = lines[:9]
	}
	return strings.Join(lines, "\n")
}

// leaked returns the stacks of bubble goroutines that did not exist before the run (apart from the held-back canceller).
func (w *world) leaked(base map[string]string, cancellerAlive bool) []string {
	ex := kernel.Extra(base, kernel.Census())
	allowed := 0
	if cancellerAlive {
		allowed = 1
	}
	var leaked []string
	for _, s := range ex {
		if strings.Contains(s, "powsim.(*world).simulate.func") && strings.Contains(s, "kernel.Yield") && allowed > 0 {
			allowed--
			continue
		}
		leaked = append(leaked, s)
	}
	return leaked
}

// censusCheck compares the goroutines of the bubble with the baseline taken before the run.
func (w *world) censusCheck(base map[string]string, cancellerAlive bool) {
	leaked := w.leaked(base, cancellerAlive)
	if len(leaked) > 0 {
		fn := "unknown"
		for _, line := range strings.Split(leaked[0], "\n") {
			if strings.Contains(line, "iota-crypto-demo/") && !strings.HasPrefix(line, "\t") {
				fn = strings.TrimSpace(line)
				if i := strings.LastIndex(fn, "("); i > 0 {
					fn = fn[:i]
				}
				if i := strings.LastIndex(fn, "/"); i > 0 {
					fn = fn[i+1:]
				}
				break
			}
		}
		var b strings.Builder
		fmt.Fprintf(&b, "%d goroutine(s) started by Mine still exist after Mine returned and the system is quiescent:", len(leaked))
		for _, s := range leaked {
			b.WriteString("\n--- ")
			b.WriteString(trimStack(s))
		}
		w.violate("leak:"+fn, b.String(), nil)
	}
}

// judge applies the outcome oracles once the run is over.
func (w *world) judge(st *stub) {
	cfg := w.cfg
	switch {
	case w.res.Diverged != "":
		w.res.Outcome = "diverged"
		return
	case !w.returned:
		w.res.Outcome = "no-return"
		if w.inconclusive {
			w.res.Outcome = "no-find-within-cap"
		}
		return
	case w.ret.panic != "":
		w.res.Outcome = "panic"
		first := w.ret.panic
		if i := strings.IndexByte(first, '\n'); i > 0 {
			first = first[:i]
		}
		w.violate("panic:"+first, w.ret.panic, nil)
		return
	}
	cancelBeforeReturn := w.preCancelled || (w.cancelDelivered && (w.cancelStep <= w.retStep))
	isCancelled := false
	if w.ret.err != nil {
		if (cfg.Version == 1 && w.ret.err == pow1.ErrCancelled) || (cfg.Version == 2 && w.ret.err == pow2.ErrCancelled) {
			isCancelled = true
		} else {
			w.res.Outcome = "error"
			w.violate("wrong-error", fmt.Sprintf("Mine returned the error %q, which is neither nil nor the cancellation error", w.ret.err), nil)
			return
		}
	}
	if isCancelled {
		w.res.Outcome = "cancelled"
		w.probes["err_cancelled"] = 1
		if !cancelBeforeReturn {
			w.violate("cancelled-without-cancel", "Mine returned the cancellation error although the context was not cancelled before it returned", nil)
		}
		if len(w.found) > 0 {
			w.probes["find_and_cancel"] = 1
		}
		return
	}
	w.res.Outcome = "nonce"
	w.scoreProbes(st)
	if cancelBeforeReturn {
		w.probes["nonce_despite_cancel"] = 1
		if len(w.found) > 0 {
			w.probes["find_and_cancel"] = 1
		}
	}
	w.judgeNonce(st)
}

type bysRes struct {
	nonce uint64
	f     float64
	u     uint64
}

// judgeBystanders compares what the bystander goroutines got from Score with the reference.
func (w *world) judgeBystanders(st *stub, ch chan bysRes) {
	cfg := w.cfg
	L := cfg.msgLen()
	sig := map[string]any{"version": cfg.Version, "hash": cfg.Hash}
	for {
		var r bysRes
		got := false
		kernel.Hidden(func() {
			select {
			case r = <-ch:
				got = true
			default:
			}
		})
		if !got || w.res.Class != "" {
			return
		}
		var trits []int8
		if st != nil {
			trits = st.Trits(r.nonce)
		} else {
			trits = ref.PowHash(ref.Msg(cfg.data(), r.nonce))
		}
		if cfg.Version == 1 {
			z := ref.TrailingZeros(trits)
			want := ref.V1ScoreFloat(z, L)
			tol := uint64(0)
			if z > 33 {
				tol = 16
			}
			if ref.Ulps(r.f, want) > tol {
				w.violate("score-mismatch", fmt.Sprintf("pow.Score(data||%d), evaluated by another goroutine while Mine was running, returned %v; the hash has %d trailing zero trits, reference 3^%d/%d = %v", r.nonce, r.f, z, z, L, want), sig)
			}
			continue
		}
		d := ref.Difficulty(trits)
		if want := ref.V2ScoreFromDifficulty(d, L); r.u != want {
			w.violate("score-mismatch", fmt.Sprintf("v2.Score(data||%d), evaluated by another goroutine while Mine was running, returned %d; reference min(floor(d/len), 2^64-1) = %d", r.nonce, r.u, want), sig)
		}
	}
}

// scoreProbes (stub-hash runs): the repository's Score, which sees the crafted hashes through its hash hook,
// must equal the reference score on the returned nonce and on the planted nonces of the run. This drives Score
// over hashes no real mining reaches (40+ trailing zeros, values at the exact thresholds, the all-zero hash).
func (w *world) scoreProbes(st *stub) {
	if st == nil {
		return
	}
	cfg := w.cfg
	L := cfg.msgLen()
	data := cfg.data()
	nonces := []uint64{w.ret.nonce}
	for i, sp := range cfg.Stub.Specials {
		if i >= 10 {
			break
		}
		nonces = append(nonces, sp.Nonce)
	}
	sig := map[string]any{"version": cfg.Version, "hash": cfg.Hash}
	for _, n := range nonces {
		trits := st.Trits(n)
		msg := ref.Msg(data, n)
		w.probes["score_probe"] = 1
		if cfg.Version == 1 {
			z := ref.TrailingZeros(trits)
			got, want := pow1.Score(msg), ref.V1ScoreFloat(z, L)
			tol := uint64(0)
			if z > 33 {
				tol = 16 // 3^z is not representable: allow for the rounding of math.Pow
				w.probes["score_probe_z_gt_33"] = 1
			}
			if ref.Ulps(got, want) > tol {
				w.violate("score-mismatch", fmt.Sprintf("pow.Score of a message of %d bytes whose hash has %d trailing zero trits is %v, reference 3^%d/%d = %v", L, z, got, z, L, want), sig)
				return
			}
			continue
		}
		d := ref.Difficulty(trits)
		got, want := pow2.Score(msg), ref.V2ScoreFromDifficulty(d, L)
		if !d.IsUint64() {
			w.probes["score_probe_big_difficulty"] = 1
		}
		if want == ^uint64(0) {
			w.probes["score_probe_saturated"] = 1
		}
		if got != want {
			w.violate("score-mismatch", fmt.Sprintf("v2.Score of a message of %d bytes with difficulty %v is %d, reference min(floor(d/len), 2^64-1) = %d", L, d, got, want), sig)
			return
		}
	}
}

func (w *world) judgeNonce(st *stub) {
	cfg := w.cfg
	n := w.ret.nonce
	L := cfg.msgLen()
	msg := ref.Msg(cfg.data(), n)
	sig := map[string]any{"version": cfg.Version, "hash": cfg.Hash}
	if cfg.Version == 1 {
		target := cfg.targetF()
		var z int
		if st != nil {
			z = ref.TrailingZeros(st.Trits(n))
			if got := pow1.Score(msg); !(got >= target) && !(z > 33 && ref.Ulps(got, target) <= 16) {
				w.violate("nonce-below-target", fmt.Sprintf("Mine(target=%v = %#x, len %d) returned nonce %d with Score %v (crafted hash with %d trailing zeros)", target, cfg.TargetBits, L, n, got, z), sig)
				return
			}
			if d := z - st.cc.z; d <= 2 {
				w.res.Tags["returned_zeros_minus_required"] = fmt.Sprint(d)
			} else {
				w.res.Tags["returned_zeros_minus_required"] = ">2"
			}
		} else {
			z = ref.TrailingZeros(ref.PowHash(msg))
			got := pow1.Score(msg)
			want := ref.V1ScoreFloat(z, L)
			tol := uint64(0)
			if z > 33 {
				tol = 2
			}
			if ref.Ulps(got, want) > tol {
				w.violate("score-mismatch", fmt.Sprintf("pow.Score(data||%d) = %v, reference 3^%d/%d = %v", n, got, z, L, want), sig)
				return
			}
			if !(got >= target) {
				w.violate("nonce-below-target", fmt.Sprintf("Mine(target=%v = %#x) returned nonce %d with Score %v (3^%d/%d)", target, cfg.TargetBits, n, got, z, L), sig)
				return
			}
		}
		// exact judgement, with the float tolerance of Score itself for z > 33
		if !ref.V1Meets(z, L, target) {
			f := ref.V1ScoreFloat(z, L)
			marginal := z > 33 && ref.Ulps(f, target) <= 2
			if !marginal {
				w.violate("nonce-below-target", fmt.Sprintf("Mine(target=%v = %#x, len %d) returned nonce %d whose hash has %d trailing zero trits: 3^%d/%d = %v < target", target, cfg.TargetBits, L, n, z, z, L, f), sig)
			}
		}
		return
	}
	// version 2
	p, _ := ref.V2Product(L, cfg.TargetBits)
	var trits []int8
	if st != nil {
		trits = st.Trits(n)
		if got := pow2.Score(msg); got < cfg.TargetBits {
			w.violate("nonce-below-target", fmt.Sprintf("v2 Mine(target=%d, len %d) returned nonce %d with Score %d (crafted hash, difficulty %v)", cfg.TargetBits, L, n, got, ref.Difficulty(trits)), sig)
			return
		}
	} else {
		trits = ref.PowHash(msg)
		got := pow2.Score(msg)
		want := ref.V2ScoreFromDifficulty(ref.Difficulty(trits), L)
		if got != want {
			w.violate("score-mismatch", fmt.Sprintf("v2.Score(data||%d) = %d, reference %d", n, got, want), sig)
			return
		}
		if got < cfg.TargetBits {
			w.violate("nonce-below-target", fmt.Sprintf("v2 Mine(target=%d) returned nonce %d with Score %d", cfg.TargetBits, n, got), sig)
			return
		}
	}
	cls := ref.V2Classify(trits, p)
	if cfg.TargetBits == 0 {
		cls = ref.V2Clear
	}
	w.res.Tags["returned_class"] = cls.String()
	z := ref.TrailingZeros(trits)
	cc := cfg.craftCtx()
	switch {
	case z >= cc.z:
		w.probes["fast_accept"] = 1
	case z == cc.z-1:
		w.probes["mixed_accept"] = 1
	}
	if cls == ref.V2No {
		d := ref.Difficulty(trits)
		w.violate("nonce-below-target", fmt.Sprintf("v2 Mine(target=%d, len %d) returned nonce %d whose difficulty %v is below len*target = %v", cfg.TargetBits, L, n, d, p), sig)
		return
	}
	if cfg.PassOver && cfg.Workers == 1 && cfg.TargetBits != 0 {
		w.judgePassOver(st, n, p)
	}
}

// judgePassOver: with a single worker, no block of 64 nonces before the one containing the returned nonce
// may hold a nonce whose difficulty strictly exceeds len*target.
func (w *world) judgePassOver(st *stub, n uint64, p *big.Int) {
	limit := 64 * (n / 64)
	data := w.cfg.data()
	cc := w.cfg.craftCtx()
	if st != nil && st.plan.DecoyPerMille == 0 && !st.plan.AllQualify && cc.z >= 2 {
		// an oracle without decoys: the background hash of every nonce has a non-zero top trit and can never qualify, so
		// the planted nonces are the only ones to look at — exact, however deep the returned nonce lies
		for _, sp := range st.plan.Specials {
			if sp.Nonce >= limit {
				continue
			}
			trits := st.Trits(sp.Nonce)
			if ref.V2Classify(trits, p) == ref.V2Clear {
				w.violate("passed-over", fmt.Sprintf("v2 Mine(target=%d, len %d, 1 worker) returned nonce %d (block %d) but nonce %d in the earlier block %d has difficulty %v > len*target = %v (%d trailing zeros, sufficient %d)",
					w.cfg.TargetBits, w.cfg.msgLen(), n, n/64, sp.Nonce, sp.Nonce/64, ref.Difficulty(trits), p, ref.TrailingZeros(trits), cc.z), map[string]any{"version": 2, "hash": w.cfg.Hash})
				return
			}
		}
		w.probes["passover_checked"] = 1
		if limit > 1<<16 {
			w.probes["passover_checked_beyond_1000_blocks"] = 1
		}
		return
	}
	if limit > 1<<16 {
		w.probes["passover_scan_truncated"] = 1
		limit = 1 << 16
	}
	for m := uint64(0); m < limit; m++ {
		if m%256 == 0 {
			kernel.Progress.Add(1)
		}
		var trits []int8
		if st != nil {
			trits = st.Trits(m)
		} else {
			trits = ref.PowHash(ref.Msg(data, m))
		}
		z := ref.TrailingZeros(trits)
		if z >= cc.z-1 {
			w.probes["mixed_reject_or_skip"] = 1
		}
		if z == 0 && cc.z >= 2 {
			continue // top trit non-zero: difficulty <= 3 < len*target (len*target >= 8), exact
		}
		if ref.V2Classify(trits, p) == ref.V2Clear {
			w.violate("passed-over", fmt.Sprintf("v2 Mine(target=%d, len %d, 1 worker) returned nonce %d but nonce %d in an earlier block has difficulty %v > len*target = %v (%d trailing zeros, sufficient %d)",
				w.cfg.TargetBits, w.cfg.msgLen(), n, m, ref.Difficulty(trits), p, z, cc.z), map[string]any{"version": 2, "hash": w.cfg.Hash})
			return
		}
	}
	w.probes["passover_checked"] = 1
}

func (w *world) finish() {
	cfg := w.cfg
	select {
	case <-mismatchCh:
		w.probes["lane_input_encodes_other_nonce"] = 1
	default:
	}
	w.res.Faults, w.res.Probes = w.faults, w.probes
	if w.step == 0 {
		w.step = stepTime
	}
	w.res.SimNs = w.simNs + int64(w.res.Steps)*int64(w.step)
	if w.res.Tags == nil {
		w.res.Tags = map[string]string{}
	}
	w.res.Tags["version"] = fmt.Sprint(cfg.Version)
	w.res.Tags["workers"] = fmt.Sprint(cfg.Workers)
	w.res.Tags["hash"] = cfg.Hash
	w.res.Tags["fault"] = cfg.Fault.Kind
	switch {
	case cfg.Background:
		w.res.Tags["context"] = "background"
	case cfg.ForeignCtx:
		w.res.Tags["context"] = "foreign"
	default:
		w.res.Tags["context"] = "package-context"
	}
	w.res.Tags["strategy"] = cfg.Strat.Kind
	w.res.Tags["order"] = strings.Join(w.events, "<")
	w.res.Tags["outcome"] = w.res.Outcome
	if strings.HasPrefix(cfg.TargetNote, "marathon") {
		w.probes["marathon_cancelled_after_16k_batches"] = 1
		w.res.Tags["special"] = "marathon"
	}
	if cfg.Crowd > 1 {
		w.res.Tags["special"] = "crowd"
	}
	if strings.HasPrefix(cfg.TargetNote, "deep-passover") {
		w.res.Tags["special"] = "deep-passover"
	}
	if cfg.BigData > 0 {
		w.probes["payload_of_64KiB_to_5MiB"] = 1
		if cfg.Fault.Kind == "pre" {
			w.probes["big_payload_cancelled_before_the_call"] = 1
		}
	}
	// non-trivial: at least two different actors interleaved and a find or a fault occurred
	w.res.Nontriv = w.res.Switches >= 2 && (len(w.found) > 0 || w.cancelDelivered)
	if w.res.Class != "" {
		b, _ := json.Marshal(cfg)
		w.res.Config = b
	}
}

func (w *world) sampleTrace() {
	if w.k == nil {
		return
	}
	var parts []string
	for i, s := range w.k.Trace {
		if i >= 60 {
			parts = append(parts, "...")
			break
		}
		parts = append(parts, fmt.Sprintf("%d:%s", s.Who, s.Site))
	}
	sample := map[string]any{
		"version": w.cfg.Version, "workers": w.cfg.Workers, "hash": w.cfg.Hash, "fault": w.cfg.Fault,
		"strategy": w.cfg.Strat.Kind, "target": w.cfg.TargetNote, "outcome": w.res.Outcome, "schedule": strings.Join(parts, " "),
	}
	b, _ := json.Marshal(sample)
	w.res.Sample = b
}
