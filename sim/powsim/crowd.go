package powsim

import (
	"context"
	"fmt"
	"math"
	"runtime/debug"
	"sort"
	"testing"
	"testing/synctest"
	"time"

	pow1 "github.com/wollac/iota-crypto-demo/pkg/pow"
	pow2 "github.com/wollac/iota-crypto-demo/pkg/pow/v2"

	"golang.org/x/crypto/blake2b"

	"verif/sim/kernel"
	"verif/sim/ref"
)

// Crowd runs (auto-instrumented flavour only): several Mine calls of one process run CONCURRENTLY — the way a node mines
// several messages at once — each with its own cancellable context, all mining an unattainable target. The calls are
// cancelled one at a time, the one started last first, while the others keep mining; every call must return within a
// bounded number of fair rounds after ITS OWN cancellation, whatever the other calls are doing, and when all have
// returned nothing they started may be left. Process-wide state a change introduces (a bounded pool, a semaphore, a
// shared table) is what this reaches. Actor ids of call c are shifted by c*kernel.CallStride (goroutines inherit their
// call through the instrumented go statements).

const crowdRounds = fairRounds // fair rounds a call has to return in after its own cancellation (as for a single call)

type crowdCall struct {
	ctx      context.Context
	cancel   context.CancelFunc
	res      chan mineRet
	returned bool
	ret      mineRet

	cancelled bool
	wraps     int
	jumped    bool

	cancelledAtReturn bool
}

func (w *world) simulateCrowd(choices []int) {
	cfg := w.cfg
	base := kernel.Census()
	// one oracle under which nobody ever finds — except a lane whose input is not (digest of ITS call's data, nonce, 000):
	// such a lane hashes another message than the one its call is mining, and the oracle lets it qualify (see SimInput)
	var perCall []craftCtx
	for i := range cfg.CrowdTargets {
		perCall = append(perCall, makeCraftCtx(cfg.Version, len(cfg.callData(i))+8, cfg.callTarget(i)))
	}
	st := newStub(cfg.Stub, cfg.craftCtx(), perCall...)
	st.special[wrongInputNonce] = make([]int8, ref.HashLen)
	for i := 0; i < cfg.Crowd; i++ {
		d := blake2b.Sum256(cfg.callData(i))
		st.digests = append(st.digests, ref.B1T6(d[:]))
	}
	curStub.Store(st)
	kernel.EnableAuto()
	kernel.SetSelectSeed(cfg.Strat.Seed)
	k := kernel.New(cfg.Strat.build(), choices, w.replay)
	w.k = k
	k.Journal = w.journal
	defer k.Unbind()

	// one Worker object for all calls, or one per call
	var shared1 *pow1.Worker
	var shared2 *pow2.Worker
	if cfg.SharedWorker {
		shared1, shared2 = pow1.New(cfg.Workers), pow2.New(cfg.Workers)
		w.probes["concurrent_calls_on_one_worker_object"] = 1
	}
	var shared []byte // CrowdPrefix: the caller's one buffer; call i mines shared[:n+8i]
	if cfg.CrowdPrefix {
		shared = cfg.callData(cfg.Crowd - 1)
		w.probes["concurrent_calls_on_prefixes_of_one_buffer"] = 1
	}
	calls := make([]*crowdCall, cfg.Crowd)
	for i := range calls {
		c := &crowdCall{res: make(chan mineRet, 1)}
		c.ctx, c.cancel = context.WithCancel(context.Background())
		calls[i] = c
		idx := i
		data := cfg.callData(i)
		if shared != nil {
			data = shared[:len(data)] // spare capacity behind it: the longer calls' bytes
		}
		go func() {
			defer func() {
				if r := recover(); r != nil {
					c.res <- mineRet{panic: fmt.Sprintf("%v\n%s", r, debug.Stack())}
				}
			}()
			kernel.BindCall(idx)
			kernel.Yield("caller.start", Caller)
			var n uint64
			var err error
			tb := cfg.callTarget(idx)
			switch {
			case cfg.Version == 1 && shared1 != nil:
				n, err = shared1.Mine(c.ctx, data, math.Float64frombits(tb))
			case cfg.Version == 1:
				n, err = pow1.New(cfg.Workers).Mine(c.ctx, data, math.Float64frombits(tb))
			case shared2 != nil:
				n, err = shared2.Mine(c.ctx, data, tb)
			default:
				n, err = pow2.New(cfg.Workers).Mine(c.ctx, data, tb)
			}
			c.res <- mineRet{nonce: n, err: err}
		}()
		go func() {
			kernel.BindCall(idx)
			kernel.Yield("cancel.fire", Canceller)
			c.cancel()
		}()
	}
	w.inMine = true
	// Phase 1: the callers run first, until each has started all its workers and waits for the join (a fair round
	// gives a caller one step, and it needs several steps per worker: left to round-robin, starting 5 x 64 workers would
	// take a hundred thousand steps). Phase 2: twenty-five fair rounds, so that every worker has started mining (or is waiting for whatever it needs to start). Phase 3: the
	// calls are cancelled one at a time, call K-1 first, each after the previous one has returned.
	spawned, settle, waitSpins, sinceReturn := false, 0, 0, 8
	timersTried := false
	// which call is cancelled next: the one with the most workers waiting for a lock or a channel (a call that is being
	// starved of some process-wide resource is the interesting victim), the highest-numbered one on a tie; never before
	// the previously cancelled call has returned
	cancelDue := func(parked []kernel.Enabled) int {
		// twenty-five fair rounds before the first cancellation, and eight after a call has returned before the next one
		// is cancelled: what the OTHER calls do when one of them goes away (return, although nobody cancelled them?) must
		// have time to show
		if !spawned || settle < 25 || sinceReturn < 8 {
			return -1
		}
		for _, c := range calls {
			if c.cancelled && !c.returned {
				return -1
			}
		}
		waiting := make([]int, len(calls))
		for _, e := range parked {
			if e.Site == "auto:chanwait" || e.Site == kernel.LockWaitSite {
				if c := callOfActor(e.Who); c >= 0 && c < len(calls) {
					waiting[c]++
				}
			}
		}
		best := -1
		switch cfg.CrowdOrder {
		case "lowest":
			for i, c := range calls {
				if !c.cancelled {
					return i
				}
			}
		case "random":
			var open []int
			for i, c := range calls {
				if !c.cancelled {
					open = append(open, i)
				}
			}
			if len(open) > 0 {
				return open[int(kernel.Mix(cfg.Strat.Seed, 0xca2ce1, uint64(len(open)))%uint64(len(open)))]
			}
		}
		for i, c := range calls {
			if !c.cancelled && (best < 0 || waiting[i] >= waiting[best]) {
				best = i
			}
		}
		return best
	}
	for {
		k.Quiesce()
		kernel.HiddenSleep(stepTime)
		k.Quiesce()
		all := true
		for _, c := range calls {
			if !c.returned {
				select {
				case c.ret = <-c.res:
					c.returned = true
					c.cancelledAtReturn = c.cancelled // what counts is whether ITS context had been cancelled by then
					sinceReturn = 0
				default:
					all = false
				}
			}
		}
		parked := k.Parked()
		var en []kernel.Enabled
		var forced *kernel.Enabled
		due := cancelDue(parked)
		for _, e := range parked {
			if e.Site == "cancel.fire" && !w.replay {
				call := (e.Who + 2) / kernel.CallStride
				if call != due {
					continue // held back
				}
				e2 := e
				forced = &e2
			}
			en = append(en, e)
		}
		sort.Slice(en, func(i, j int) bool { return en[i].Who < en[j].Who })
		if !spawned && !w.replay {
			spawned = true
			for i := range en {
				// a caller that waits for a channel or a lock (say, for another call's result) has settled as well
				if e := en[i]; e.Who%kernel.CallStride == 0 && e.Site != "mine.wait" && e.Site != "cancel.fire" && !kernel.IsWaitSite(e.Site) {
					spawned = false
					if forced == nil {
						forced = &en[i]
					}
					break
				}
			}
			if spawned {
				k.SetStrategy(kernel.RoundRobin{})
			}
		}
		if all && onlyCancellers(parked) {
			break
		}
		if len(en) == 0 && !all && !timersTried {
			// everything that is left may be asleep on a timer: let the clock run before calling it a deadlock
			timersTried = true
			nParked := len(parked)
			for _, d := range idleSlices {
				kernel.HiddenSleep(d)
				k.Quiesce()
				got := false
				for _, c := range calls {
					if !c.returned && len(c.res) > 0 {
						got = true
					}
				}
				if got || len(k.Parked()) != nParked {
					break
				}
			}
			continue
		}
		if len(en) == 0 {
			if !all {
				w.violate("deadlock", fmt.Sprintf("no actor is enabled while %d concurrent Mine calls are in flight; %s", len(calls), describeBlocked(base)), nil)
			}
			break
		}
		waiting := !all
		for _, e := range en {
			if !kernel.IsWaitSite(e.Site) {
				waiting = false
			}
		}
		if waiting {
			if waitSpins == 0 {
				kernel.HiddenSleep(time.Hour)
			}
			if waitSpins++; waitSpins > 4*len(en)+8 {
				w.violate("deadlock", fmt.Sprintf("every remaining actor is waiting for a lock or a channel while %d concurrent Mine calls are in flight; %s", len(calls), describeBlocked(base)), nil)
				break
			}
		} else {
			waitSpins = 0
		}
		if len(k.Trace) > 600000 {
			w.inconclusive = true
			break
		}
		var e kernel.Enabled
		if forced != nil && !w.replay {
			e = k.PickForced(*forced)
		} else {
			var ok bool
			if e, ok = k.Pick(en); !ok {
				w.res.Diverged = k.Diverged
				break
			}
		}
		if e.Site == "cancel.fire" {
			call := (e.Who + 2) / kernel.CallStride
			calls[call].cancelled = true
			w.faults["cancel_mid"]++
			w.cancelDelivered = true
			k.SetStrategy(kernel.RoundRobin{})
		}
		if k.Wrapped() {
			if spawned {
				settle++
				sinceReturn++
			}
			for i, c := range calls {
				if c.cancelled && !c.returned {
					c.wraps++
					if c.wraps > crowdRounds && !c.jumped {
						// rounds are not time (see simulate): move the clock once before the verdict
						c.jumped = true
						c.wraps = 0
						kernel.HiddenSleep(idleAfterCancelMax)
						k.Quiesce()
					}
					if c.wraps > crowdRounds {
						w.violate("hang-after-cancel", fmt.Sprintf("call %d of %d concurrent Mine calls (%d workers each) did not return within %d fair rounds after its own context was cancelled, while the other calls kept mining", i, len(calls), cfg.Workers, crowdRounds), nil)
					}
				}
			}
			if w.res.Class != "" {
				break
			}
		}
		timersTried = false
		k.Wake(e.Who)
	}
	// cancellers that were never needed (their call returned by itself) are let go before the census: they are the
	// simulator's own goroutines
	for _, e := range k.Parked() {
		if e.Site == "cancel.fire" {
			k.Wake(e.Who)
		}
	}
	k.Quiesce()
	if shared != nil {
		// the caller never writes to its buffer; Mine was handed data[:len] to read. A byte that changed lies in the
		// message of another call that was running at the time: a write racing with that call's reads, whether or not
		// the detector was looking
		want := cfg.callData(cfg.Crowd - 1)
		for p := range want {
			if shared[p] != want[p] {
				w.violate("race:mine-wrote-into-the-callers-buffer", fmt.Sprintf("%d concurrent calls on prefixes of one buffer (lengths %d, %d, ...): byte %d of the caller's buffer changed from %#02x to %#02x during the run; it lies behind the data of the call that found a nonce and inside the message of a longer call that was mining at the time", len(calls), len(cfg.callData(0)), len(cfg.callData(1)), p, want[p], shared[p]), nil)
				break
			}
		}
	}
	w.returned = true
	for i, c := range calls {
		if !c.returned {
			w.returned = false
			continue
		}
		switch {
		case c.ret.panic != "":
			w.violate("panic:"+firstLine(c.ret.panic), c.ret.panic, nil)
		case c.ret.err == nil && w.crowdNonceQualifies(st, i, c.ret.nonce):
			w.probes["concurrent_call_found_while_others_mine"] = 1
		case c.ret.err == nil:
			w.violate("nonce-below-target", fmt.Sprintf("call %d of %d concurrent calls (one Worker object for all: %v) returned nonce %d, whose hash under the run's oracle has %d trailing zeros: that does not meet this call's own target for its own message (%s; a lane whose input is not its own call's digest and nonce hashes to all zeros)", i, len(calls), cfg.SharedWorker, c.ret.nonce, ref.TrailingZeros(st.Trits(c.ret.nonce)), cfg.TargetNote), nil)
		case !c.cancelledAtReturn:
			w.violate("cancelled-without-cancel", fmt.Sprintf("call %d of %d concurrent calls (one Worker object for all: %v, same message: %v) returned %q although its own context had not been cancelled when it returned", i, len(calls), cfg.SharedWorker, cfg.CrowdSame, c.ret.err), nil)
		}
	}
	if w.returned && w.res.Class == "" && w.res.Diverged == "" {
		if leaked := w.leaked(base, false); len(leaked) > 0 {
			w.violate("leak:after-concurrent-calls", fmt.Sprintf("%d goroutine(s) are left after all %d concurrent calls have returned:\n--- %s", len(leaked), len(calls), trimStack(leaked[0])), nil)
		}
	}
	for _, c := range calls {
		c.cancel()
	}
	w.res.Steps = len(k.Trace)
	w.res.Switches = k.Switches
	w.res.TraceHash = fmt.Sprintf("%016x", k.TraceHash())
	w.res.Outcome = "crowd-all-cancelled"
	if !w.returned {
		w.res.Outcome = "no-return"
	}
	if w.res.Class != "" || w.res.Diverged != "" || w.verbose {
		w.res.Choices = k.Choices()
	}
	w.probes["concurrent_calls"] = 1
	if cfg.Crowd*cfg.Workers > 256 {
		w.probes["more_than_256_live_workers"] = 1
	}
	w.sampleTrace()
}

// crowdNonceQualifies judges a nonce returned by call i of a crowd run under the run's oracle, for that call's own
// message length and target.
func (w *world) crowdNonceQualifies(st *stub, i int, nonce uint64) bool {
	cfg := w.cfg
	if len(cfg.CrowdTargets) == 0 {
		return false // nobody can find in such a run
	}
	trits := st.Trits(nonce)
	L := len(cfg.callData(i)) + 8
	if cfg.Version == 1 {
		return ref.TrailingZeros(trits) >= ref.V1RequiredZeros(L, math.Float64frombits(cfg.callTarget(i)))
	}
	p, ok := ref.V2Product(L, cfg.callTarget(i))
	return ok && ref.V2Classify(trits, p) != ref.V2No
}

// callOfActor maps a scheduled actor id back to its call (ids of call c lie in [c*stride-3, c*stride+stride-4]).
func callOfActor(who int) int {
	return (who + 3) / kernel.CallStride
}

func onlyCancellers(parked []kernel.Enabled) bool {
	for _, e := range parked {
		if e.Site != "cancel.fire" {
			return false
		}
	}
	return true
}

func firstLine(s string) string {
	for i := 0; i < len(s); i++ {
		if s[i] == '\n' {
			return s[:i]
		}
	}
	return s
}

var _ = time.Second
var _ = synctest.Wait
var _ *testing.T
