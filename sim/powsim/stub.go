package powsim

import (
	"math/big"
	"math/bits"
	"math/rand/v2"

	"verif/sim/kernel"
	"verif/sim/ref"
)

// The hash stub replaces the output of the Curl permutation, as seen by a PoW worker, by a
// seeded oracle: Trits(nonce) is a pure function of (plan, nonce). Everything else in Mine —
// the worker loop, the lane test, big-integer comparison, nonce arithmetic, channels — runs real code.

// Special is a crafted hash for one particular nonce.
type Special struct {
	Nonce uint64 `json:"nonce"`
	Kind  string `json:"kind"` // see craft()
	// Call > 0 (crowd runs with per-call targets): the kind is relative to the thresholds of call Call-1
	Call int `json:"call,omitempty"`
}

// StubPlan describes the oracle.
type StubPlan struct {
	Seed     uint64    `json:"seed"`
	Specials []Special `json:"specials,omitempty"`
	// DecoyPerMille is the per-nonce probability (in 1/1000) of a near-miss decoy hash.
	DecoyPerMille int `json:"decoy_per_mille,omitempty"`
	// AllQualify makes every nonce hash to all-zero trits.
	AllQualify bool `json:"all_qualify,omitempty"`
}

// crafting context: what "near the threshold" means for this run
type craftCtx struct {
	version int
	z       int      // v1: required zeros (reference); v2: s
	p       *big.Int // v2: msgLen*target
	t, q    *big.Int // v2: T = floor(3^243/(p+1)), Q = floor(3^243/p)
}

type stub struct {
	plan    *StubPlan
	cc      craftCtx
	special map[uint64][]int8
	digest  []int8 // b1t6 of the BLAKE2b-256 digest of the data of the call (192 trits)
	// crowd runs: the digest of each concurrent call's own data (a worker finds its call through its goroutine)
	digests [][]int8
	logCh   chan uint64
}

func newStub(plan *StubPlan, cc craftCtx, perCall ...craftCtx) *stub {
	s := &stub{plan: plan, cc: cc, special: map[uint64][]int8{}, logCh: make(chan uint64, 4096)}
	for _, sp := range plan.Specials {
		c := cc
		if sp.Call > 0 && sp.Call <= len(perCall) {
			c = perCall[sp.Call-1]
		}
		if _, dup := s.special[sp.Nonce]; dup && sp.Call > 0 {
			continue // never replace a planted find by a near miss
		}
		s.special[sp.Nonce] = craft(c, sp.Kind, kernel.Mix(plan.Seed, 77, sp.Nonce))
	}
	return s
}

var decoyKindsV1 = []string{"zeros:-1", "zeros:-1", "zeros:-2", "zeros:-3"}

// decoys are crafted lazily on the goroutines of the code under test, so they must not touch math/big or fmt: both use
// sync.Pool, whose synchronisation would order the workers for the race detector (and hide races between them)
var decoyKindsV2 = []string{"zeros:-2", "zeros:-2", "zeros:-1", "zeros:-1", "zeros:-3", "zeros:-2"}

func (s *stub) decoy(nonce uint64) []int8 {
	if s.plan.DecoyPerMille == 0 {
		return nil
	}
	x := kernel.Mix(s.plan.Seed, 99, nonce)
	if int(x%1000) >= s.plan.DecoyPerMille {
		return nil
	}
	kinds := decoyKindsV1
	if s.cc.version == 2 {
		kinds = decoyKindsV2
	}
	return craft(s.cc, kinds[(x>>20)%uint64(len(kinds))], x)
}

// background bit planes of the aligned block blk at trit position i
func (s *stub) bg(blk uint64, i int) (l, h uint64) {
	if s.plan.AllQualify {
		return ^uint64(0), ^uint64(0)
	}
	if i == ref.HashLen-1 {
		return ^uint64(0), 0 // top trit -1: never qualifies (unless nothing is required)
	}
	a := kernel.Mix(s.plan.Seed, blk, uint64(i))
	b := kernel.SplitMix64(a)
	return a, ^a | b
}

// Trits returns the crafted hash of nonce.
func (s *stub) Trits(nonce uint64) []int8 {
	if t, ok := s.special[nonce]; ok {
		return t
	}
	if t := s.decoy(nonce); t != nil {
		return t
	}
	out := make([]int8, ref.HashLen)
	blk, bit := nonce>>6, nonce&63
	for i := range out {
		l, h := s.bg(blk, i)
		out[i] = int8((h>>bit)&1) - int8((l>>bit)&1)
	}
	return out
}

// fill overwrites the 243-entry bit planes of the batch starting at nonce. lanes, if not nil, gives the nonce each
// lane's INPUT buffer actually encodes (decoded from what the worker is about to hash): the oracle is a function of
// what was hashed, so a lane fed with a stale or wrong nonce gets the hash of THAT nonce.
func (s *stub) fill(l, h *[ref.HashLen]uint, nonce uint64, lanes *[64]uint64) {
	if lanes != nil {
		regular := true
		for j := uint64(0); j < bits.UintSize; j++ {
			if lanes[j] != nonce+j {
				regular = false
				break
			}
		}
		if !regular {
			for i := 0; i < ref.HashLen; i++ {
				l[i], h[i] = ^uint(0), ^uint(0)
			}
			for j := 0; j < bits.UintSize; j++ {
				t := s.Trits(lanes[j])
				m := uint(1) << uint(j)
				for i := 0; i < ref.HashLen; i++ {
					switch t[i] {
					case 1:
						l[i] &^= m
					case -1:
						h[i] &^= m
					}
				}
			}
			return
		}
	}
	blk, off := nonce>>6, nonce&63
	for i := 0; i < ref.HashLen; i++ {
		l0, h0 := s.bg(blk, i)
		if off != 0 {
			l1, h1 := s.bg(blk+1, i)
			l0 = l0>>off | l1<<(64-off)
			h0 = h0>>off | h1<<(64-off)
		}
		l[i], h[i] = uint(l0), uint(h0)
	}
	for j := uint64(0); j < 64; j++ {
		n := nonce + j
		t, ok := s.special[n]
		if !ok {
			if t = s.decoy(n); t == nil {
				continue
			}
		}
		m := uint(1) << j
		for i := 0; i < ref.HashLen; i++ {
			l[i] |= m
			h[i] |= m
			switch t[i] {
			case 1:
				l[i] &^= m
			case -1:
				h[i] &^= m
			}
		}
	}
}

// b1t6 code words of all byte values, for decoding the nonce a lane's input buffer carries
var b1t6Table = func() (t [256][6]int8) {
	for v := 0; v < 256; v++ {
		copy(t[v][:], ref.B1T6([]byte{byte(v)}))
	}
	return
}()

// decodeLaneNonce reads the 48 nonce trits (8 b1t6 groups, little-endian bytes) of an input buffer.
func decodeLaneNonce(trits []int8, expect uint64) (uint64, bool) {
	var n uint64
	for p := 0; p < 8; p++ {
		g := trits[6*p : 6*p+6]
		want := b1t6Table[byte(expect>>(8*uint(p)))]
		if g[0] == want[0] && g[1] == want[1] && g[2] == want[2] && g[3] == want[3] && g[4] == want[4] && g[5] == want[5] {
			n |= uint64(byte(expect>>(8*uint(p)))) << (8 * uint(p))
			continue
		}
		found := false
		for v := 0; v < 256 && !found; v++ {
			c := b1t6Table[v]
			if g[0] == c[0] && g[1] == c[1] && g[2] == c[2] && g[3] == c[3] && g[4] == c[4] && g[5] == c[5] {
				n |= uint64(v) << (8 * uint(p))
				found = true
			}
		}
		if !found {
			return expect, false
		}
	}
	return n, true
}

func randTrit(r *rand.Rand) int8 { return int8(r.IntN(3)) - 1 }

// zerosHash returns random trits with exactly k trailing zeros (k clamped to [0,243]).
func zerosHash(r *rand.Rand, k int) []int8 {
	if k < 0 {
		k = 0
	}
	if k > ref.HashLen {
		k = ref.HashLen
	}
	t := make([]int8, ref.HashLen)
	for i := 0; i < ref.HashLen-k; i++ {
		t[i] = randTrit(r)
	}
	if k < ref.HashLen && t[ref.HashLen-k-1] == 0 {
		t[ref.HashLen-k-1] = int8(1 - 2*r.IntN(2))
	}
	return t
}

func randBelow(r *rand.Rand, n *big.Int) *big.Int { // uniform-ish in [0,n)
	if n.Sign() <= 0 {
		return new(big.Int)
	}
	words := (n.BitLen() + 63) / 64
	v := new(big.Int)
	for i := 0; i <= words; i++ {
		v.Lsh(v, 64).Add(v, new(big.Int).SetUint64(r.Uint64()))
	}
	return v.Mod(v, n)
}

func clampHash(h *big.Int) *big.Int {
	if h.Sign() <= 0 {
		return big.NewInt(1)
	}
	if h.Cmp(ref.MaxHash) > 0 {
		return new(big.Int).Set(ref.MaxHash)
	}
	return h
}

// craft builds a hash of the given kind. Kinds:
//
//	zeros:+d / zeros:-d / zeros:=k   exactly z+d, z-d or k trailing zero trits, other trits random
//	zero                             the all-zero hash
//	T-1 T T+1 Q Q+1 T+2 Q-1          (v2) the integer hash values around the exact thresholds
//	below                            (v2) random hash value in [3^(243-s), T]: one zero fewer than sufficient, yet clear
//	above                            (v2) random hash value in (Q, 3^(244-s)): one zero fewer than sufficient, not qualifying
//	marginal                         (v2) random hash value in (T, Q] if that range is not empty, else Q+1
func craft(cc craftCtx, kind string, seed uint64) []int8 {
	r := kernel.NewRand(seed)
	one := big.NewInt(1)
	switch kind {
	case "zero":
		return make([]int8, ref.HashLen)
	case "T-1":
		return ref.IntToTrits(clampHash(new(big.Int).Sub(cc.t, one)))
	case "T":
		return ref.IntToTrits(clampHash(cc.t))
	case "T+1":
		return ref.IntToTrits(clampHash(new(big.Int).Add(cc.t, one)))
	case "T+2":
		return ref.IntToTrits(clampHash(new(big.Int).Add(cc.t, big.NewInt(2))))
	case "Q-1":
		return ref.IntToTrits(clampHash(new(big.Int).Sub(cc.q, one)))
	case "Q":
		return ref.IntToTrits(clampHash(cc.q))
	case "Q+1":
		return ref.IntToTrits(clampHash(new(big.Int).Add(cc.q, one)))
	case "below":
		lo := new(big.Int).Add(ref.Pow3(ref.HashLen-cc.z), one) // smallest hash integer with exactly s-1 trailing zeros
		if cc.t.Cmp(lo) < 0 {
			return ref.IntToTrits(clampHash(cc.t))
		}
		span := new(big.Int).Sub(cc.t, lo)
		span.Add(span, one)
		return ref.IntToTrits(clampHash(lo.Add(lo, randBelow(r, span))))
	case "above":
		lo := new(big.Int).Add(cc.q, one)
		hi := ref.Pow3(ref.HashLen - cc.z + 1) // largest hash integer with s-1 trailing zeros
		if hi.Cmp(lo) < 0 {
			return ref.IntToTrits(clampHash(lo))
		}
		span := new(big.Int).Sub(hi, lo)
		span.Add(span, one)
		return ref.IntToTrits(clampHash(lo.Add(lo, randBelow(r, span))))
	case "marginal":
		lo := new(big.Int).Add(cc.t, one)
		if cc.q.Cmp(lo) < 0 {
			return ref.IntToTrits(clampHash(new(big.Int).Add(cc.q, one)))
		}
		span := new(big.Int).Sub(cc.q, lo)
		span.Add(span, one)
		return ref.IntToTrits(clampHash(lo.Add(lo, randBelow(r, span))))
	}
	if len(kind) > 6 && kind[:6] == "zeros:" {
		n := 0
		for _, ch := range kind[7:] {
			n = n*10 + int(ch-'0')
		}
		switch kind[6] {
		case '+':
			return zerosHash(r, cc.z+n)
		case '-':
			return zerosHash(r, cc.z-n)
		case '=':
			return zerosHash(r, n)
		}
	}
	panic("powsim: unknown craft kind " + kind)
}
