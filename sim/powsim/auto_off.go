//go:build !verifauto

package powsim

const autoFlavour = false
