//go:build verifauto

package powsim

import (
	pow1 "github.com/wollac/iota-crypto-demo/pkg/pow"
	pow2 "github.com/wollac/iota-crypto-demo/pkg/pow/v2"

	"verif/sim/kernel"
)

// Auto-instrumented flavour: the child is built against a scratch copy of the repository in which
// package autoyield inserted a yield before every synchronisation operation.

const autoFlavour = true

func init() {
	pow1.SimAuto, pow2.SimAuto = kernel.AutoYield, kernel.AutoYield
	pow1.SimSpawn, pow2.SimSpawn = kernel.Spawn, kernel.Spawn
	pow1.SimBind, pow2.SimBind = kernel.Bind, kernel.Bind
	pow1.SimLockAcquire, pow2.SimLockAcquire = kernel.LockAcquire, kernel.LockAcquire
	pow1.SimPerm, pow2.SimPerm = kernel.Perm, kernel.Perm
}
