package powsim

import (
	"encoding/hex"
	"fmt"
	"math"
	"math/big"
	"math/rand/v2"

	"verif/sim/kernel"
	"verif/sim/ref"
)

// actor ids (workers are 1..n, as in the repository's hooks)
const (
	Caller    = 0
	Watcher   = -1
	Canceller = -2
	Bystander = -10 // and -11: goroutines that evaluate Score while Mine runs
	Clock     = -3
)

// Trigger says when a fault action becomes eligible.
type Trigger struct {
	Mode  string `json:"mode"` // free | step | parked | passed
	Step  int    `json:"step,omitempty"`
	Site  string `json:"site,omitempty"`
	Nth   int    `json:"nth,omitempty"`
	Force bool   `json:"force,omitempty"` // fire in the very next step once eligible
}

// FaultPlan is the cancellation plan of a run.
type FaultPlan struct {
	Kind       string  `json:"kind"` // none | pre | cancel | deadline | both
	Cancel     Trigger `json:"cancel,omitempty"`
	Clock      Trigger `json:"clock,omitempty"`
	DeadlineMs int     `json:"deadline_ms,omitempty"`
	Grace      int     `json:"grace"` // steps the strategy keeps control after the cancellation before the fair phase
}

// StratSpec describes the scheduling strategy of a run.
type StratSpec struct {
	Kind   string  `json:"kind"`
	Q      float64 `json:"q,omitempty"`
	D      int     `json:"d,omitempty"`
	Victim int     `json:"victim,omitempty"`
	K      int     `json:"k,omitempty"`
	Site   string  `json:"site,omitempty"`
	Seed   uint64  `json:"seed"`
}

func (s StratSpec) build() kernel.Strategy {
	r := kernel.NewRand(s.Seed)
	switch s.Kind {
	case "sticky":
		return kernel.Sticky{R: r, Q: s.Q}
	case "pct":
		return kernel.NewPCT(r, s.D, 120)
	case "starve":
		return kernel.Starve{R: r, Victim: s.Victim, K: s.K}
	case "favour":
		return kernel.Favour{R: r, Fav: s.Victim, K: s.K}
	case "roundrobin":
		return kernel.RoundRobin{}
	case "teams":
		return &kernel.Teams{R: r}
	case "align":
		var inner kernel.Strategy = kernel.Uniform{R: r}
		if s.D == 1 {
			inner = &kernel.Teams{R: r}
		}
		al := &kernel.Align{Inner: inner, Site: s.Site, N: s.K}
		if s.D == 2 {
			al.Leader = kernel.NewRand(s.Seed ^ 0x1eade2)
		}
		return al
	}
	return kernel.Uniform{R: r}
}

// Config is the fully expanded description of one simulated Mine call.
type Config struct {
	Prop       string    `json:"prop"`
	Version    int       `json:"version"`
	Workers    int       `json:"workers"`
	DataHex    string    `json:"data"`
	TargetBits uint64    `json:"target_bits"` // v1: bits of the float64 target; v2: the integer target
	TargetNote string    `json:"target_note,omitempty"`
	Hash       string    `json:"hash"` // real | stub
	Stub       *StubPlan `json:"stub,omitempty"`
	Fault      FaultPlan `json:"fault"`
	Strat      StratSpec `json:"strategy"`
	StepCap    int       `json:"step_cap"`
	HardCap    int       `json:"hard_cap,omitempty"`       // steps after which an uncancellable run is given up (default step_cap+4000)
	Background bool      `json:"background_ctx,omitempty"` // call Mine with context.Background()
	// NeverDone (with Background): which never-cancellable context: "" = context.Background() itself, "todo",
	// "value" (WithValue of Background), "withoutcancel" (WithoutCancel of a cancellable parent that IS cancelled during
	// the run), "own" (the caller's own type with a nil Done channel)
	NeverDone  string `json:"never_done,omitempty"`
	ForeignCtx bool   `json:"foreign_ctx,omitempty"` // the context is the caller's own implementation of context.Context, not one from package context
	PassOver   bool   `json:"pass_over,omitempty"`   // judge the pass-over clause (single worker)
	Crowd      int    `json:"crowd,omitempty"`       // > 1: that many concurrent Mine calls (auto flavour only)
	MustFind   bool   `json:"must_find,omitempty"`   // generator guarantees a qualifying nonce is reachable quickly
	// SharedWorker (crowd runs): all concurrent calls go through ONE Worker object, the way an application keeps a
	// single pow.Worker around; otherwise every call has a Worker of its own.
	SharedWorker bool `json:"shared_worker,omitempty"`
	// BigData > 0: the payload has that many bytes (the bytes of DataHex repeated, then a running counter): payloads of
	// megabytes are legal, and hashing them takes long enough for an implementation to treat them differently.
	BigData int `json:"big_data,omitempty"`
	// Before, if set, is a Mine call made in the same process (same Worker object if the worker counts agree) just
	// before the judged one: a short call that certainly finds, chosen so that the two calls agree in part of what
	// determines the required work (same target and a message length that differs by a multiple of 2^16 or 2^8, same
	// target and any other length, same length and a target 27 times smaller). State a change keeps between calls under
	// a key that is only part of (target, length) is then wrong for the judged call — always in the unsound direction,
	// because the judged call is the one that needs more zeros.
	Before *Config `json:"before,omitempty"`
	// StepMs > 0: every scheduler step costs that many milliseconds of simulated time instead of 50 microseconds, so a
	// run of a thousand steps is minutes or hours of mining on the clock Mine sees (simulated time costs nothing): code
	// that behaves differently after a long search measured in TIME rather than in batches is reached this way.
	// Only in runs without a context deadline.
	StepMs int `json:"step_ms,omitempty"`
	// CrowdTargets / CrowdLenStep (crowd runs, optional): call i of the crowd has its own target CrowdTargets[i] and a
	// message i*CrowdLenStep bytes longer than call 0. Call 0's target is attainable (the oracle plants hashes with
	// exactly the zeros call 0 needs in every worker's early batches), the other calls need more zeros than any hash of
	// the oracle has: call 0 may find, the others must not.
	CrowdTargets []uint64 `json:"crowd_targets,omitempty"`
	CrowdLenStep int      `json:"crowd_len_step,omitempty"`
	// CrowdSame: all calls of the crowd mine the very same message (identical requests, as when several parts of an
	// application ask for the proof of work of one block at once). CrowdOrder: which call is cancelled next - "" the
	// one with most workers waiting (highest index on a tie), "lowest" the lowest index first, "random".
	CrowdSame  bool   `json:"crowd_same,omitempty"`
	CrowdOrder string `json:"crowd_order,omitempty"`
	// CrowdFinder: in a crowd with CrowdTargets, the index of the call whose target is attainable
	CrowdFinder int `json:"crowd_finder,omitempty"`
	// CrowdPrefix: the calls' messages are prefixes of ONE buffer of the caller (call i gets buf[:n+8i], with the rest
	// of the buffer as spare capacity), the way an append-only log asks for the proof of work of each of its prefixes.
	// Mine was handed data[:len] to read; the bytes behind it are another call's message.
	CrowdPrefix bool `json:"crowd_prefix,omitempty"`
	// ScoreBystanders: that many (1 or 2) other goroutines evaluate Score of a message while the Mine call is running
	ScoreBystanders int `json:"score_bystanders,omitempty"`
	// FollowUp: when the call has returned a nonce while its watcher, having seen the cancellation, is still parked, a
	// second call is made on the same Worker (same message and target, context.Background()) and scheduled together
	// with what the first call left behind
	FollowUp bool `json:"follow_up,omitempty"`

	dataCache []byte
}

func (c *Config) data() []byte {
	if c.dataCache != nil {
		return c.dataCache
	}
	b, err := hex.DecodeString(c.DataHex)
	if err != nil {
		panic(err)
	}
	if c.BigData > 0 {
		big := make([]byte, c.BigData)
		n := copy(big, b)
		for i := n; i < len(big); i++ {
			big[i] = byte(i) ^ byte(i>>8) ^ byte(i>>16)*31
		}
		b = big
	}
	c.dataCache = b
	return b
}

// callData is the payload of call i of a crowd run: the calls mine different messages of the same length.
func (c *Config) callData(i int) []byte {
	d := append([]byte{}, c.data()...)
	if c.CrowdPrefix {
		for j := 0; j < i*8; j++ {
			d = append(d, byte(j*13+5)) // the same bytes whatever i is: the messages are prefixes of each other
		}
		return d
	}
	for j := 0; j < i*c.CrowdLenStep; j++ {
		d = append(d, byte(j*7+i))
	}
	if len(d) > 0 && !c.CrowdSame {
		d[len(d)-1] ^= byte(i)
	}
	return d
}

// callTarget is the target of call i of a crowd run.
func (c *Config) callTarget(i int) uint64 {
	if i < len(c.CrowdTargets) {
		return c.CrowdTargets[i]
	}
	return c.TargetBits
}
func (c *Config) msgLen() int {
	if c.BigData > 0 {
		return c.BigData + 8
	}
	return len(c.DataHex)/2 + 8
}
func (c *Config) targetF() float64   { return math.Float64frombits(c.TargetBits) }
func (c *Config) craftCtx() craftCtx { return makeCraftCtx(c.Version, c.msgLen(), c.TargetBits) }

func makeCraftCtx(version, msgLen int, bits uint64) craftCtx {
	cc := craftCtx{version: version}
	if version == 1 {
		cc.z = ref.V1RequiredZeros(msgLen, math.Float64frombits(bits))
		return cc
	}
	p, _ := ref.V2Product(msgLen, bits)
	cc.p = p
	cc.z = ref.V2Sufficient(p)
	cc.t = new(big.Int).Quo(ref.MaxHash, new(big.Int).Add(p, big.NewInt(1)))
	if p.Sign() > 0 {
		cc.q = new(big.Int).Quo(ref.MaxHash, p)
	} else {
		cc.q = new(big.Int).Set(ref.MaxHash)
	}
	return cc
}

var triggerSites = []string{
	"worker.found", "worker.send", "worker.exit", "worker.batch", "worker.start",
	"mine.spawned", "mine.wait", "mine.joined", "mine.closedResults", "mine.closedClosing", "watcher.cancelled",
}

func pick[T any](r *rand.Rand, xs ...T) T { return xs[r.IntN(len(xs))] }

func genTrigger(r *rand.Rand) Trigger {
	switch x := r.IntN(10); {
	case x < 2:
		return Trigger{Mode: "free"}
	case x < 4:
		return Trigger{Mode: "step", Step: r.IntN(60), Force: r.IntN(2) == 0}
	default:
		return Trigger{Mode: pick(r, "parked", "passed"), Site: pick(r, triggerSites...), Nth: 1 + r.IntN(3), Force: r.IntN(3) != 0}
	}
}

func genStrategy(r *rand.Rand, workers int) StratSpec {
	s := StratSpec{Seed: r.Uint64()}
	switch x := r.IntN(100); {
	case x < 14:
		s.Kind = "uniform"
	case x < 20:
		// a barrier at a hook site: K actors are held there before any of them goes on (D = 1: released in teams)
		s.Kind, s.Site, s.K, s.D = "align", pick(r, "worker.found", "worker.found", "worker.found", "worker.send", "worker.batch", "worker.exit"), pick(r, 2, 3, 3, workers), r.IntN(3)
	case x < 28:
		s.Kind = "teams"
	case x < 46:
		s.Kind, s.Q = "sticky", pick(r, 0.5, 0.8, 0.95)
	case x < 66:
		s.Kind, s.D = "pct", r.IntN(4)
	case x < 82:
		s.Kind, s.K = "starve", 20+r.IntN(200)
		s.Victim = pick(r, Watcher, Watcher, Caller, Canceller, 1+r.IntN(workers))
	case x < 90:
		s.Kind, s.K = "favour", 20+r.IntN(100)
		s.Victim = pick(r, Watcher, Caller, Canceller, 1+r.IntN(workers))
	default:
		s.Kind = "roundrobin"
	}
	return s
}

func genWorkers(r *rand.Rand, max int) int {
	switch x := r.IntN(10); {
	case x < 2:
		return 1
	case x < 4:
		return 2
	case x < 5:
		return 3
	case x < 6:
		return max
	case x < 7 && max > 16:
		return pick(r, 16, 17, 32, 63, 64)
	default:
		return 1 + r.IntN(max)
	}
}

func genData(r *rand.Rand) []byte {
	var n int
	switch x := r.IntN(10); {
	case x < 1:
		n = 0
	case x < 4:
		n = 1 + r.IntN(20)
	case x < 6:
		n = pick(r, 1, 19, 73, 235) // message lengths 9, 27, 81, 243
	default:
		n = r.IntN(301)
	}
	b := make([]byte, n)
	for i := range b {
		b[i] = byte(r.Uint32())
	}
	return b
}

func genFault(r *rand.Rand, allowNone bool) FaultPlan {
	f := FaultPlan{Grace: r.IntN(51)}
	x := r.IntN(100)
	switch {
	case x < 22 && allowNone:
		f.Kind = "none"
	case x < 32:
		f.Kind = "pre"
	case x < 72:
		f.Kind, f.Cancel = "cancel", genTrigger(r)
	case x < 88:
		f.Kind, f.Clock, f.DeadlineMs = "deadline", genTrigger(r), 1+r.IntN(120000)
	default:
		f.Kind, f.Cancel, f.Clock, f.DeadlineMs = "both", genTrigger(r), genTrigger(r), 1+r.IntN(120000)
	}
	return f
}

func workerStart(workers, k int) uint64 { return uint64(k) * (math.MaxUint64 / uint64(workers)) }

// plantCarry plants qualifying hashes at the nonces a worker would hash if the high bytes of its nonce encoding were
// stale after a carry: for worker k >= 1 (unaligned start) it finds the first batch whose 64 nonces straddle a
// multiple of 2^e and gives the nonces t - 2^e of the lanes after the crossing a qualifying hash, while the true
// nonces t keep the never-qualifying background. Correct code finds nothing there and goes on to the guaranteed
// find planted one batch later; code that hashes t - 2^e but reports t returns a nonce that does not qualify.
func plantCarry(r *rand.Rand, c *Config, good string) string {
	w := c.Workers
	if w < 2 {
		return ""
	}
	k := 1 + r.IntN(w-1)
	start := workerStart(w, k)
	e := uint(pick(r, 8, 8, 16, 16, 32))
	if tier16 := e == 16 && (w > 7 || r.IntN(3) != 0); tier16 {
		e = 8
	}
	if w > 64 {
		// many workers: the start nonces k*floor((2^64-1)/w) of the workers beyond the 64th lie more than a batch below
		// a multiple of 2^32, so that not their first but their second or third batch straddles it: look for such a
		// worker (any will do) and plant the aliases there
		e = 32
		for _, b := range []int{1, 2} {
			for _, kk := range r.Perm(w - 1) {
				st := workerStart(w, kk+1)
				base := st + uint64(64*b)
				rem := uint64(1)<<32 - base%(1<<32)
				if base%(1<<32) == 0 || rem > 63 {
					continue
				}
				for _, lane := range []uint64{rem, rem + 1, 63} {
					if lane <= 63 && lane >= rem {
						c.Stub.Specials = append(c.Stub.Specials, Special{Nonce: base + lane - 1<<32, Kind: good})
					}
				}
				c.Stub.Specials = append(c.Stub.Specials, Special{Nonce: st + uint64(64*(b+1)) + uint64(r.IntN(64)), Kind: "zero"})
				return fmt.Sprintf("carry:2^32@worker%d,batch%d", kk+1, b)
			}
		}
		return ""
	}
	mod := uint64(1) << e
	first := 1
	if e == 32 {
		first = 0
	}
	for b := first; b < first+1100; b++ {
		base := start + uint64(64*b)
		rem := mod - base%mod // distance to the next multiple of 2^e
		if base%mod == 0 || rem > 63 {
			if e == 32 {
				return "" // only workers starting within a batch of a 2^32 boundary are interesting
			}
			continue
		}
		for _, lane := range []uint64{rem, rem + 1, 63} {
			if lane <= 63 && lane >= rem {
				c.Stub.Specials = append(c.Stub.Specials, Special{Nonce: base + lane - mod, Kind: good})
			}
		}
		c.Stub.Specials = append(c.Stub.Specials, Special{Nonce: start + uint64(64*(b+1)) + uint64(r.IntN(64)), Kind: "zero"})
		return fmt.Sprintf("carry:2^%d@worker%d,batch%d", e, k, b)
	}
	return ""
}

// comboKinds are the near-miss classes mixed into a combo batch (set per version by the generators).
var comboKinds = []string{"zeros:-1"}

// plantFinds adds specials that make workers find a qualifying nonce, according to a find plan.
func plantFinds(r *rand.Rand, c *Config, goodKinds []string, maxBatch int) string {
	w := c.Workers
	add := func(k, batch, lane int, kind string) {
		c.Stub.Specials = append(c.Stub.Specials, Special{Nonce: workerStart(w, k) + uint64(64*batch+lane), Kind: kind})
	}
	lane := func() int { return pick(r, 0, 63, r.IntN(64), r.IntN(64)) }
	plan := pick(r, "single", "single", "all-same-batch", "consecutive", "several", "first-batch-all", "combo", "combo")
	switch plan {
	case "single":
		add(r.IntN(w), r.IntN(maxBatch), lane(), pick(r, goodKinds...))
	case "all-same-batch":
		b := r.IntN(maxBatch)
		for k := 0; k < w; k++ {
			add(k, b, lane(), pick(r, goodKinds...))
		}
	case "first-batch-all":
		for k := 0; k < w; k++ {
			add(k, 0, lane(), pick(r, goodKinds...))
		}
	case "consecutive":
		b := r.IntN(maxBatch)
		for k := 0; k < w; k++ {
			add(k, b+k%3, lane(), pick(r, goodKinds...))
		}
	case "combo":
		// several crafted lanes of mixed classes in ONE batch: the order of the lanes decides which one the lane
		// test must return (candidates that do not qualify before one that does, lanes 0 and 63 included)
		k, b := r.IntN(w), r.IntN(maxBatch)
		lanes := r.Perm(64)[:2+r.IntN(5)]
		if r.IntN(2) == 0 {
			lanes[0] = 63
		}
		if r.IntN(2) == 0 {
			lanes[len(lanes)-1] = 0
		}
		for i, ln := range lanes {
			kind := pick(r, comboKinds...)
			if i == len(lanes)-1 {
				kind = pick(r, goodKinds...)
			}
			add(k, b, ln, kind)
		}
	case "several":
		n := 1 + r.IntN(4)
		for i := 0; i < n; i++ {
			add(r.IntN(w), r.IntN(maxBatch), lane(), pick(r, goodKinds...))
		}
	}
	return plan
}

func v1Target(L, k int, mode string) float64 {
	f := ref.V1ScoreFloat(k, L)
	switch mode {
	case "prev":
		return math.Nextafter(f, math.Inf(-1))
	case "next":
		return math.Nextafter(f, math.Inf(1))
	case "safe":
		return f * 0.9
	}
	return f
}

// Flavour is the build flavour of the child (set by the child before it generates runs); marathons are skipped in
// the race build, where they would take half a minute each.
var Flavour string

// genMarathon: a long uncancelled search (more than 16384 batches per worker) that is cancelled late. Cancellation
// must be honoured as promptly after a long search as after a short one.
func genMarathon(r *rand.Rand) *Config {
	c := &Config{Prop: "C13", Version: 1 + r.IntN(2), Workers: 1 + r.IntN(2), Hash: "stub", TargetNote: "marathon finds:none"}
	data := genData(r)
	c.DataHex = hex.EncodeToString(data)
	L := len(data) + 8
	if c.Version == 1 {
		c.TargetBits = math.Float64bits(v1Target(L, 30+r.IntN(30), "safe"))
	} else {
		c.TargetBits = math.MaxUint64 / uint64(L) / uint64(1+r.IntN(1000))
	}
	c.Stub = &StubPlan{Seed: r.Uint64()}
	c.Strat = StratSpec{Kind: pick(r, "roundrobin", "uniform"), Seed: r.Uint64()}
	perWorker := 16500 + r.IntN(16000)
	at := c.Workers*perWorker + 10
	c.Fault = FaultPlan{Kind: "cancel", Cancel: Trigger{Mode: "step", Step: at, Force: true}, Grace: r.IntN(20)}
	c.StepCap = at + 1000
	return c
}

// genCrowd: several concurrent Mine calls on an unattainable target, cancelled one after the other (crowd.go).
func genCrowd(r *rand.Rand, prop string, version int) *Config {
	c := &Config{Prop: prop, Version: 1 + r.IntN(2), Hash: "stub", TargetNote: "crowd finds:none"}
	if version != 0 {
		c.Version = version
	}
	c.Crowd, c.Workers = pick(r, 2, 3, 5, 5), pick(r, 1, 2, 8, 64, 64)
	data := genData(r)
	c.DataHex = hex.EncodeToString(data)
	L := len(data) + 8
	if c.Version == 1 {
		c.TargetBits = math.Float64bits(v1Target(L, 30+r.IntN(30), "safe"))
	} else {
		c.TargetBits = math.MaxUint64 / uint64(L) / uint64(1+r.IntN(1000))
	}
	c.Stub = &StubPlan{Seed: r.Uint64()}
	c.Strat = StratSpec{Kind: pick(r, "roundrobin", "uniform", "roundrobin"), Seed: r.Uint64()}
	c.Fault = FaultPlan{Kind: "cancel"}
	c.StepCap = 1000
	c.SharedWorker = r.IntN(3) != 0
	if r.IntN(2) == 0 {
		// calls that differ in what they need: call 0 needs z0 zeros and the oracle offers hashes with exactly z0 zeros
		// in every worker's early batches; the other calls need at least two more (and may mine longer messages)
		c.TargetNote = "crowd finds:one-call-only"
		c.CrowdLenStep = pick(r, 0, 0, 1, 7, 300)
		c.CrowdFinder = r.IntN(c.Crowd) // calls start in the order of their index: the finder may be first, last, in between
		if r.IntN(3) == 0 {
			c.CrowdPrefix, c.CrowdLenStep, c.CrowdFinder = true, 8, r.IntN(c.Crowd-1) // not the longest: somebody's message lies behind the finder's
		}
		z0 := 2 + r.IntN(6)
		for i := 0; i < c.Crowd; i++ {
			z, Li := z0, L+i*c.CrowdLenStep
			if i != c.CrowdFinder {
				z = z0 + 2 + r.IntN(8)
			}
			if c.Version == 1 {
				c.CrowdTargets = append(c.CrowdTargets, math.Float64bits(v1Target(Li, z, "safe")))
			} else {
				p := new(big.Int).Mul(ref.Pow3(z), big.NewInt(9))
				p.Quo(p, big.NewInt(10))
				t := p.Quo(p, big.NewInt(int64(Li)))
				if t.Sign() == 0 {
					t = big.NewInt(1)
				}
				c.CrowdTargets = append(c.CrowdTargets, t.Uint64())
			}
		}
		c.TargetBits = c.CrowdTargets[c.CrowdFinder]
		for k := 0; k < c.Workers; k++ {
			c.Stub.Specials = append(c.Stub.Specials, Special{Nonce: workerStart(c.Workers, k) + uint64(64*(1+r.IntN(3))+r.IntN(64)), Kind: fmt.Sprintf("zeros:=%d", z0)})
		}
		// near misses for the calls that must not find: hashes one zero short of what THAT call needs (v2: above its
		// own target hash), in every worker's first batch - before anybody finds; a call that judges them by another
		// call's threshold accepts one
		for i := 0; i < c.Crowd; i++ {
			if i == c.CrowdFinder {
				continue
			}
			kind := "zeros:-1"
			if c.Version == 2 {
				kind = pick(r, "above", "above", "zeros:-2")
			}
			for k := 0; k < c.Workers; k++ {
				c.Stub.Specials = append(c.Stub.Specials, Special{Nonce: workerStart(c.Workers, k) + uint64(r.IntN(64)), Kind: kind, Call: i + 1})
			}
		}
	} else {
		c.CrowdSame = r.IntN(2) == 0
	}
	c.CrowdOrder = pick(r, "", "lowest", "lowest", "random")
	return c
}

// GenC13 draws the configuration of run seed for property C13.
func GenC13(seed uint64, tier string) *Config {
	r := kernel.NewRand(seed)
	// both draws are made in every flavour, so that the same seed means the same run in the plain and the race build
	marathon, crowdDraw := r.IntN(900) == 0, r.IntN(300)
	if marathon && Flavour != "race" && Flavour != "autorace" {
		return genMarathon(r)
	}
	// crowd runs need goroutine identities inherited through instrumented go statements: auto flavours only; the
	// race-detector variant of that flavour exists mostly for them
	if (crowdDraw < 3 && Flavour == "auto") || (crowdDraw < 45 && Flavour == "autorace") {
		return genCrowd(r, "C13", 0)
	}
	maxW := 16
	if tier == "thorough" {
		maxW = 64
	}
	c := &Config{Prop: "C13", Version: 1 + r.IntN(2), Workers: genWorkers(r, maxW)}
	if tier != "thorough" && r.IntN(25) == 0 {
		c.Workers = pick(r, 17, 32, 33, 48, 63, 64) // a few large worker counts in the quick tier as well
	}
	data := genData(r)
	c.DataHex = hex.EncodeToString(data)
	if r.IntN(40) == 0 {
		c.BigData = pick(r, 1<<16, 1<<20, 1<<20+1+r.IntN(4096), 3<<20, 1<<18+r.IntN(1<<18), 5<<20)
	}
	L := c.msgLen()
	c.Strat = genStrategy(r, c.Workers)
	c.StepCap = 200 + r.IntN(1500)
	stubMode := r.IntN(10) < 7
	huddle := r.IntN(3) == 0
	if stubMode {
		c.Hash = "stub"
		c.Stub = &StubPlan{Seed: r.Uint64(), DecoyPerMille: pick(r, 0, 0, 5, 30)}
		var good []string
		if c.Version == 1 {
			// targets in the middle of a zero-count class mostly, sometimes exactly at or next to a class boundary and
			// sometimes needing (almost) all 243 zeros: Mine has to return for all of them
			k := 1 + r.IntN(60)
			if r.IntN(12) == 0 {
				k = 60 + r.IntN(184)
			}
			mode := pick(r, "safe", "safe", "safe", "exact", "next", "prev")
			if k == 243 {
				// the largest score there is: at or above 3^243/len a target is not attainable (244 zeros do not exist),
				// and whether a float equal to my 3^243/len is "at" the repository's 3^243/len is a matter of one ulp
				// of math.Pow: stay inside the quantifier
				mode = "safe"
			}
			c.TargetBits = math.Float64bits(v1Target(L, k, mode))
			good = []string{"zeros:+0", "zeros:+1", "zero", "zeros:+0"}
			comboKinds = []string{"zeros:-1", "zeros:-2", "zeros:+0"}
		} else {
			s := 2 + r.IntN(39)
			p := new(big.Int).Mul(ref.Pow3(s), big.NewInt(9))
			p.Quo(p, big.NewInt(10))
			t := new(big.Int).Quo(p, big.NewInt(int64(L)))
			if t.Sign() == 0 || !t.IsUint64() {
				t = big.NewInt(1)
			}
			c.TargetBits = t.Uint64()
			good = []string{"zeros:+0", "zeros:+1", "zero", "below", "T"}
			comboKinds = []string{"T+1", "Q+1", "above", "zeros:-2", "below", "zeros:+0"}
		}
		switch x := r.IntN(10); {
		case x < 2: // nobody ever finds
			c.TargetNote = "finds:none"
		case x < 3:
			c.Stub.AllQualify = true
			c.MustFind = true
			c.TargetNote = "finds:every-lane"
		default:
			c.TargetNote = "finds:" + plantFinds(r, c, good, 1+r.IntN(6))
			c.MustFind = true
		}
		// the auto-instrumented flavours exist for windows between synchronisation operations; the ones worth most are
		// in what several workers do when they find at the same time. A third of their stub runs are "huddles": 3..6
		// workers, every one of them finds in the same early batch, a barrier holds them at worker.found until all (or
		// three) have arrived, then one goes ahead alone and the others follow in random order.
		if huddle && (Flavour == "auto" || Flavour == "autorace") {
			c.Workers = 3 + r.IntN(4)
			c.Stub.Specials, c.Stub.AllQualify, c.MustFind = nil, false, true
			b := r.IntN(3)
			for k := 0; k < c.Workers; k++ {
				c.Stub.Specials = append(c.Stub.Specials, Special{Nonce: workerStart(c.Workers, k) + uint64(64*b+r.IntN(64)), Kind: pick(r, good...)})
			}
			c.TargetNote = "finds:huddle"
			c.Strat = StratSpec{Kind: "align", Site: "worker.found", K: pick(r, 3, c.Workers), D: pick(r, 2, 2, 1, 0), Seed: r.Uint64()}
		}
	} else {
		c.Hash = "real"
		x := r.IntN(10)
		switch {
		case x < 2: // practically unattainable
			if c.Version == 1 {
				c.TargetBits = math.Float64bits(v1Target(L, 25+r.IntN(80), "safe"))
			} else {
				c.TargetBits = math.MaxUint64 / uint64(L) / uint64(1+r.IntN(1000))
			}
			c.TargetNote = "unattainable"
			c.StepCap = 50 + r.IntN(300)
		case x < 4: // every lane qualifies
			if c.Version == 1 {
				c.TargetBits = math.Float64bits(pick(r, 0.9/float64(L), 1/float64(L), 0.5/float64(L)))
			} else {
				c.TargetBits = pick(r, uint64(0), 1)
			}
			c.TargetNote = "every-lane"
			c.MustFind = true
		default:
			k := r.IntN(5)
			if c.Version == 1 {
				c.TargetBits = math.Float64bits(v1Target(L, k, "safe"))
			} else {
				t := uint64(float64(ref.Pow3(k+2).Int64()) * 0.9 / float64(L))
				if t == 0 {
					t = 1
				}
				c.TargetBits = t
			}
			c.MustFind = true
		}
	}
	c.Fault = genFault(r, true)
	if r.IntN(12) == 0 {
		c.StepMs = pick(r, 5, 200, 200, 5000, 60000)
	}
	if c.Fault.Kind == "none" && c.MustFind && r.IntN(2) == 0 {
		c.Background = true
		c.NeverDone = pick(r, "", "", "todo", "value", "withoutcancel", "own")
	}
	if !c.Background && (c.Fault.Kind == "none" || c.Fault.Kind == "pre" || c.Fault.Kind == "cancel") && r.IntN(5) == 0 {
		c.ForeignCtx = true
	}
	if c.BigData == 0 && r.IntN(6) == 0 {
		c.ScoreBystanders = 1 + r.IntN(2)
	}
	if c.Hash == "stub" && c.MustFind && c.Fault.Kind == "cancel" && c.BigData == 0 && c.StepMs == 0 && r.IntN(3) == 0 {
		// a find, then the cancellation, a watcher that is held up until the call has returned, then the next call
		c.FollowUp = true
		if c.Workers > 4 {
			c.Workers = 1 + r.IntN(4)
		}
		c.Fault.Cancel = Trigger{Mode: "parked", Site: "worker.found", Nth: 1, Force: true}
		c.Fault.Grace = 50
		c.Strat = StratSpec{Kind: "starve", Victim: Watcher, K: 1 << 20, Seed: r.Uint64()}
	}
	return c
}

// GenC11 draws the configuration of run seed for property C11 (v1, no cancellation).
func GenC11(seed uint64, tier string) *Config {
	r := kernel.NewRand(seed)
	// concurrent calls (auto-instrumented flavours): whatever a call returns without error must meet the target for ITS
	// message, also while other calls are mining — on the same Worker object or on others
	if crowdDraw := r.IntN(60); crowdDraw == 0 && (Flavour == "auto" || Flavour == "autorace") {
		return genCrowd(r, "C11", 1)
	}
	c := &Config{Prop: "C11", Version: 1, Workers: genWorkers(r, 16), MustFind: true}
	data := genData(r)
	c.DataHex = hex.EncodeToString(data)
	L := len(data) + 8
	c.Strat = genStrategy(r, c.Workers)
	c.StepCap = 150 + r.IntN(600)
	c.Fault = FaultPlan{Kind: "none"}
	c.Background = r.IntN(2) == 0
	if c.Background {
		c.NeverDone = pick(r, "", "", "", "todo", "value", "withoutcancel", "own")
	}
	stubMode := r.IntN(10) < 5
	maxK := 5
	if tier == "thorough" {
		maxK = 7
	}
	var k int
	if stubMode {
		k = r.IntN(61)
		if r.IntN(8) == 0 {
			k = 60 + r.IntN(180)
		}
	} else {
		k = r.IntN(maxK + 1)
	}
	mode := pick(r, "prev", "exact", "next", "safe", "low", "rand")
	var t float64
	switch mode {
	case "low":
		// trivially low targets: len*t in (0,1/3], (1/3,1], tiny, zero, negative
		t = pick(r, 0.3/float64(L), 1/(3*float64(L)), 0.34/float64(L), 0.99/float64(L), 1e-300, 5e-324, 0, math.Copysign(0, -1), -1, -1e300, 0.01)
		k = 0
	case "rand":
		lo, hi := ref.V1ScoreFloat(k, L), ref.V1ScoreFloat(k+1, L)
		t = lo + (hi-lo)*r.Float64()
		k++
	default:
		t = v1Target(L, k, mode)
		if mode == "next" {
			k++
		}
	}
	c.TargetBits = math.Float64bits(t)
	c.TargetNote = mode
	if stubMode {
		c.Hash = "stub"
		c.Stub = &StubPlan{Seed: r.Uint64(), DecoyPerMille: pick(r, 0, 10, 60, 200)}
		// near misses before the find, then hashes with exactly the required / one more / one fewer zeros
		nb := 1 + r.IntN(4)
		for i := 0; i < 1+r.IntN(5); i++ {
			c.Stub.Specials = append(c.Stub.Specials, Special{Nonce: workerStart(c.Workers, r.IntN(c.Workers)) + uint64(64*r.IntN(nb)+pick(r, 0, 63, r.IntN(64))), Kind: "zeros:-1"})
		}
		comboKinds = []string{"zeros:-1", "zeros:-1", "zeros:-2", "zeros:+0"}
		if note := ""; r.IntN(8) == 0 {
			if c.Workers < 3 || r.IntN(2) == 0 {
				c.Workers = pick(r, 2, 3, 3, 4, 5, 6, 7, 8, 16)
			}
			if r.IntN(5) == 0 {
				c.Workers = pick(r, 128, 128, 256, 65+r.IntN(192), 65+r.IntN(192)) // more workers than lanes in a batch
			}
			if note = plantCarry(r, c, "zeros:+0"); note != "" {
				c.TargetNote += " " + note
				c.StepCap, c.HardCap = 100, 100+c.Workers*2400
				return c
			}
		}
		c.TargetNote += " finds:" + plantFinds(r, c, []string{"zeros:+0", "zeros:+0", "zeros:+1", "zero", "zeros:=243"}, nb)
		if r.IntN(10) == 0 {
			addBefore(r, c)
		}
	} else {
		c.Hash = "real"
	}
	if c.BigData == 0 && c.Before == nil && c.Crowd <= 1 && r.IntN(8) == 0 {
		c.ScoreBystanders = 1 + r.IntN(2) // Score evaluated by other goroutines during the call (DESIGN 4.1 note 22)
	}
	if c.Hash == "stub" && c.Before == nil && c.Crowd <= 1 && !c.PassOver && c.Workers >= 2 && c.Workers <= 64 && c.HardCap == 0 && r.IntN(6) == 0 {
		// "a nonce returned without error meets the target" holds for calls that are cancelled as well: when the
		// cancellation loses against a find, what comes back is a nonce and is judged like any other. The cancellation is
		// aimed at the moment a finder is about to report.
		c.Fault = FaultPlan{Kind: "cancel", Cancel: Trigger{Mode: "parked", Site: pick(r, "worker.send", "worker.found", "worker.send"), Nth: 1, Force: r.IntN(3) > 0}, Grace: r.IntN(51)}
		c.Background, c.NeverDone = false, ""
	}
	return c
}

// addBefore gives a stub-hash run a preceding call (see Config.Before). The judged call may become longer (BigData).
func addBefore(r *rand.Rand, c *Config) {
	if c.Hash != "stub" || c.Crowd > 1 || c.BigData > 0 {
		return
	}
	mode := pick(r, "len+k*65536", "len+k*65536", "len+k*256", "shorter", "target/27")
	b := &Config{Prop: c.Prop, Version: c.Version, Workers: pick(r, 1, 2, c.Workers), Hash: "stub", MustFind: true,
		Stub: &StubPlan{Seed: r.Uint64(), AllQualify: true}, Fault: FaultPlan{Kind: "none"}, Background: true,
		Strat: StratSpec{Kind: pick(r, "roundrobin", "uniform"), Seed: r.Uint64()}, StepCap: 300,
		TargetBits: c.TargetBits, DataHex: c.DataHex, TargetNote: "before:" + mode}
	n := len(c.DataHex) / 2
	switch mode {
	case "len+k*65536":
		c.BigData = n + 65536*(1+r.IntN(3))
	case "len+k*256":
		c.BigData = n + 256*(1+r.IntN(40))
	case "shorter":
		b.DataHex = c.DataHex[:2*(n/(3+r.IntN(6)))]
	case "target/27":
		if c.Version == 1 {
			b.TargetBits = math.Float64bits(c.targetF() / 27)
		} else {
			b.TargetBits = c.TargetBits / 27
		}
	}
	if c.Version == 2 { // the precondition of C12 for the (possibly longer) judged message: len*target fits 64 bits
		for {
			if _, ok := ref.V2Product(c.msgLen(), c.TargetBits); ok {
				break
			}
			c.TargetBits >>= 1
			if mode != "target/27" {
				b.TargetBits = c.TargetBits
			} else {
				b.TargetBits = c.TargetBits / 27
			}
		}
	}
	c.Before = b
	c.TargetNote += " after:" + mode
}

// genDeepPassOver: the pass-over clause far from the start of the range. A single worker mines for thousands of batches
// under an oracle in which exactly one nonce qualifies (clearly), placed in the last batch before the worker's hash count
// reaches a round number — a power of two, a round decimal, or any multiple of 64 — which is where code that does
// something "every N hashes" (yield the processor, poll, rotate a buffer, refresh a cache) does it; a second clear nonce
// a few batches later catches the worker if it went past. The judge looks at the planted nonces only (exact: the
// background of such an oracle never qualifies).
func genDeepPassOver(r *rand.Rand) *Config {
	c := &Config{Prop: "C12", Version: 2, Workers: 1, PassOver: true, MustFind: true, Hash: "stub", Background: r.IntN(2) == 0}
	data := genData(r)
	c.DataHex = hex.EncodeToString(data)
	L := len(data) + 8
	s := 6 + r.IntN(32)
	p := new(big.Int).Mul(ref.Pow3(s), big.NewInt(9))
	p.Quo(p, big.NewInt(10))
	t := new(big.Int).Quo(p, big.NewInt(int64(L)))
	if t.Sign() == 0 || !t.IsUint64() {
		t = big.NewInt(1)
	}
	c.TargetBits = t.Uint64()
	h := pick(r, uint64(1)<<14, 1<<15, 1<<16, 1<<16, 1<<17, 1<<18, 1<<19, 1<<20, 1<<20, 1<<20, 1000000, 500000, 100000, uint64(64*(1000+r.IntN(15000))))
	c.Stub = &StubPlan{Seed: r.Uint64()}
	c.Stub.Specials = append(c.Stub.Specials,
		Special{Nonce: h - 1 - uint64(r.IntN(32)), Kind: pick(r, "zero", "zeros:+0", "zeros:+1", "below", "T")},
		Special{Nonce: h + uint64(64*(1+r.IntN(3))+r.IntN(64)), Kind: "zero"})
	c.Strat = StratSpec{Kind: "roundrobin", Seed: r.Uint64()}
	c.Fault = FaultPlan{Kind: "none"}
	c.StepCap = int(h/32) + 2000
	c.HardCap = c.StepCap + 10000
	c.TargetNote = fmt.Sprintf("deep-passover finds:single@hash%d", h)
	return c
}

// GenC12 draws the configuration of run seed for property C12 (v2).
func GenC12(seed uint64, tier string) *Config {
	r := kernel.NewRand(seed)
	if crowdDraw := r.IntN(60); crowdDraw == 0 && (Flavour == "auto" || Flavour == "autorace") {
		return genCrowd(r, "C12", 2) // see GenC11
	}
	if deep := r.IntN(600) == 0; deep && Flavour != "race" && Flavour != "autorace" {
		return genDeepPassOver(r)
	}
	c := &Config{Prop: "C12", Version: 2, MustFind: true}
	if r.IntN(10) < 6 {
		c.Workers, c.PassOver = 1, true
	} else {
		c.Workers = genWorkers(r, 16)
	}
	data := genData(r)
	c.DataHex = hex.EncodeToString(data)
	L := len(data) + 8
	c.Strat = genStrategy(r, c.Workers)
	c.StepCap = 150 + r.IntN(600)
	c.Fault = FaultPlan{Kind: "none"}
	c.Background = r.IntN(2) == 0
	if c.Background {
		c.NeverDone = pick(r, "", "", "", "todo", "value", "withoutcancel", "own")
	}
	stubMode := r.IntN(10) < 7
	maxS := 6
	if tier == "thorough" {
		maxS = 8
	}
	var s int
	if stubMode {
		s = 2 + r.IntN(40)
	} else {
		s = 2 + r.IntN(maxS-1)
	}
	if r.IntN(6) == 0 {
		s = 2 + r.IntN(2) // tiny products: one or two sufficient zeros
	}
	// target so that len*target sits at, just below or just above 3^s (as far as divisibility allows)
	base := new(big.Int).Quo(ref.Pow3(s), big.NewInt(int64(L)))
	var t *big.Int
	mode := pick(r, "floor", "floor-1", "floor+1", "double", "rand", "max")
	switch mode {
	case "floor":
		t = base
	case "floor-1":
		t = new(big.Int).Sub(base, big.NewInt(1))
	case "floor+1":
		t = new(big.Int).Add(base, big.NewInt(1))
	case "double":
		t = new(big.Int).Mul(base, big.NewInt(2))
	case "max":
		if stubMode {
			t = new(big.Int).Quo(new(big.Int).SetUint64(math.MaxUint64), big.NewInt(int64(L)))
			if r.IntN(2) == 0 {
				t.Sub(t, big.NewInt(int64(r.IntN(1000))))
			}
		} else {
			t = base
		}
	default:
		t = new(big.Int).Add(base, randBelow(r, new(big.Int).Add(new(big.Int).Mul(base, big.NewInt(2)), big.NewInt(1))))
	}
	if t.Sign() <= 0 {
		t = big.NewInt(1)
	}
	for { // precondition of the property: len*target fits 64 bits
		if _, ok := ref.V2Product(L, t.Uint64()); t.IsUint64() && ok {
			break
		}
		t.Rsh(t, 1)
	}
	c.TargetBits = t.Uint64()
	c.TargetNote = mode
	if stubMode {
		c.Hash = "stub"
		c.Stub = &StubPlan{Seed: r.Uint64(), DecoyPerMille: pick(r, 0, 10, 60, 200)}
		nb := 1 + r.IntN(5)
		lane := func() int { return pick(r, 0, 63, r.IntN(64), r.IntN(64)) }
		// decoys of every non-clear class before / around the find
		for i := 0; i < r.IntN(7); i++ {
			kind := pick(r, "T+1", "T+2", "Q", "Q+1", "above", "marginal", "zeros:-2", "zeros:-3")
			c.Stub.Specials = append(c.Stub.Specials, Special{Nonce: workerStart(c.Workers, r.IntN(c.Workers)) + uint64(64*r.IntN(nb)+lane()), Kind: kind})
		}
		comboKinds = []string{"T+1", "T+2", "Q", "Q+1", "above", "above", "marginal", "zeros:-2", "below", "T"}
		if note := ""; !c.PassOver && r.IntN(6) == 0 {
			if c.Workers < 3 || r.IntN(2) == 0 {
				c.Workers = pick(r, 2, 3, 3, 4, 5, 6, 7, 8, 16)
			}
			if r.IntN(5) == 0 {
				c.Workers = pick(r, 128, 128, 256, 65+r.IntN(192), 65+r.IntN(192)) // more workers than lanes in a batch
			}
			if note = plantCarry(r, c, pick(r, "zeros:+0", "below", "T")); note != "" {
				c.TargetNote += " " + note
				c.StepCap, c.HardCap = 100, 100+c.Workers*2400
				return c
			}
		}
		c.TargetNote += " finds:" + plantFinds(r, c, []string{"T", "T-1", "below", "below", "zeros:+0", "zeros:+1", "zero", "zeros:-1"}, nb)
		// a guaranteed clear nonce further on, in case every planted find turned out marginal / not qualifying
		for k := 0; k < c.Workers; k++ {
			c.Stub.Specials = append(c.Stub.Specials, Special{Nonce: workerStart(c.Workers, k) + uint64(64*(nb+1+r.IntN(2))+lane()), Kind: "zero"})
		}
		if r.IntN(10) == 0 {
			addBefore(r, c)
		}
	} else {
		c.Hash = "real"
	}
	if c.BigData == 0 && c.Before == nil && c.Crowd <= 1 && r.IntN(8) == 0 {
		c.ScoreBystanders = 1 + r.IntN(2) // Score evaluated by other goroutines during the call (DESIGN 4.1 note 22)
	}
	if c.Hash == "stub" && c.Before == nil && c.Crowd <= 1 && !c.PassOver && c.Workers >= 2 && c.Workers <= 64 && c.HardCap == 0 && r.IntN(6) == 0 {
		// "a nonce returned without error meets the target" holds for calls that are cancelled as well: when the
		// cancellation loses against a find, what comes back is a nonce and is judged like any other. The cancellation is
		// aimed at the moment a finder is about to report.
		c.Fault = FaultPlan{Kind: "cancel", Cancel: Trigger{Mode: "parked", Site: pick(r, "worker.send", "worker.found", "worker.send"), Nth: 1, Force: r.IntN(3) > 0}, Grace: r.IntN(51)}
		c.Background, c.NeverDone = false, ""
	}
	return c
}
