package main

import (
	"encoding/json"
	"fmt"
	"os"
	"os/exec"
	"path/filepath"
	"sort"
	"strings"
	"sync"
	"time"

	"verif/sim/proto"
)

func selftest(kind string, args []string) int {
	switch kind {
	case "determinism":
		return selftestDeterminism(args)
	case "sensitivity":
		return selftestSensitivity(args)
	}
	usage()
	return 2
}

// canonical strips what is allowed to differ between two executions of the same run.
func canonical(e proto.End) string {
	e.WallUs = 0
	b, _ := json.Marshal(e)
	return string(b)
}

// selftestDeterminism runs the same seeds in many processes (plain and race builds, GOMAXPROCS 1/4/16,
// different numbers of concurrent children) and requires identical per-run records.
func selftestDeterminism(args []string) int {
	props := args
	if len(props) == 0 {
		props = planIDs()
	}
	nPlain, nRace := 2000, 250
	if v := os.Getenv("VERIF_DET_RUNS"); v != "" {
		fmt.Sscanf(v, "%d", &nPlain)
		nRace = nPlain / 8
	}
	b := newBuilder()
	defer b.cleanup()
	seed := baseSeed()
	bad := 0
	for _, prop := range props {
		plan, ok := plans[prop]
		if !ok {
			fatal(2, "unknown property %s", prop)
		}
		flavours := []string{"plain", "race"}
		if plan.Engine == "curlsim" {
			flavours = []string{"plain", "race", "purego", "racepurego", "386"}
		}
		if prop == "C13" {
			flavours = []string{"plain", "race", "auto", "autorace", "386"}
		}
		if prop == "C11" || prop == "C12" {
			flavours = []string{"plain", "race", "auto"}
		}
		type job struct {
			flavour string
			gmp     int
			n       int
		}
		var jobs []job
		for rep := 0; rep < 5; rep++ {
			for _, f := range flavours {
				for _, g := range []int{1, 4, 16} {
					n := nPlain
					if f == "race" {
						n = nRace
					}
					if (f == "purego" || f == "racepurego") && rep > 0 {
						continue
					}
					if f == "auto" || f == "386" {
						n = nPlain / 2
					}
					if f == "racepurego" || f == "autorace" {
						n = nRace / 2
					}
					if f == "autorace" && rep > 1 {
						continue
					}
					jobs = append(jobs, job{f, g, n})
				}
			}
		}
		results := make([]map[int]string, len(jobs))
		troubles := make([]string, len(jobs))
		var wg sync.WaitGroup
		// two waves with different numbers of concurrent children
		sem1 := make(chan struct{}, 16)
		sem2 := make(chan struct{}, 3)
		start := time.Now()
		for i, j := range jobs {
			bin, err := b.binary(j.flavour)
			if err != nil {
				fmt.Fprintln(os.Stderr, err)
				return 2
			}
			sem := sem1
			if i%5 == 4 {
				sem = sem2
			}
			wg.Add(1)
			go func(i int, j job, bin string) {
				defer wg.Done()
				sem <- struct{}{}
				defer func() { <-sem }()
				r := runChild(bin, proto.Spec{Prop: prop, Tier: "quick", BaseSeed: seed, From: 0, To: j.n, Flavour: j.flavour, GoMaxProcs: j.gmp}, 60*time.Minute)
				m := map[int]string{}
				for _, e := range r.ends {
					m[e.Run] = canonical(e)
				}
				for _, d := range r.deaths {
					m[d.Begin.Run] = "DEATH " + d.Class
				}
				results[i], troubles[i] = m, r.trouble
			}(i, j, bin)
		}
		wg.Wait()
		mismatch := 0
		for i, j := range jobs {
			if troubles[i] != "" {
				fmt.Printf("determinism %s: job %d (%s, GOMAXPROCS=%d): TROUBLE %s\n", prop, i, j.flavour, j.gmp, troubles[i])
				mismatch++
				continue
			}
			if len(results[i]) != j.n {
				fmt.Printf("determinism %s: job %d (%s, GOMAXPROCS=%d): %d records instead of %d\n", prop, i, j.flavour, j.gmp, len(results[i]), j.n)
				mismatch++
			}
			for run, rec := range results[i] {
				ref := results[0][run]
				if j.flavour == "auto" || j.flavour == "autorace" || j.flavour == "386" || j.flavour == "purego" || j.flavour == "racepurego" {
					// another build configuration of the system under test (more yield points, 32 lanes, portable
					// permutation): compared with the first job of the same flavour
					for k, jk := range jobs {
						if jk.flavour == j.flavour {
							ref = results[k][run]
							break
						}
					}
				}
				if rec != ref && j.flavour == "race" && (strings.Contains(ref, `"special":"marathon"`) || strings.Contains(ref, `"special":"deep-passover"`) || strings.Contains(ref, `"special":"very-long"`)) {
					continue // marathons are skipped in the race build (they would take half a minute each)
				}
				if rec != ref {
					mismatch++
					if mismatch < 5 {
						fmt.Printf("determinism %s: run %d differs between job 0 (plain, GOMAXPROCS=1) and job %d (%s, GOMAXPROCS=%d):\n  %s\n  %s\n", prop, run, i, j.flavour, j.gmp, ref, rec)
					}
				}
			}
		}
		fmt.Printf("determinism %s: %d processes, %d plain / %d race runs each, %d mismatching records, %.1fs\n", prop, len(jobs), nPlain, nRace, mismatch, time.Since(start).Seconds())
		bad += mismatch
	}
	if bad > 0 {
		return 1
	}
	return 0
}

type mutantMeta struct {
	Property string `json:"property"`
	Expect   string `json:"expect"` // violation | clean
	Note     string `json:"note"`
	Tier     string `json:"tier,omitempty"`
	Scale    string `json:"scale,omitempty"`
}

// selftestSensitivity applies each patch of /verif/mutants (and /verif/seeded) to a scratch copy of the
// repository, checks that the copy still builds, and runs the quick check of the targeted property against
// it: patches marked "violation" must be caught, behaviour-preserving patches marked "clean" must not be.
func selftestSensitivity(args []string) int {
	var dirs []string
	for _, root := range []string{"mutants", "seeded"} {
		ents, _ := os.ReadDir(filepath.Join(verifDir, root))
		for _, e := range ents {
			if e.IsDir() {
				dirs = append(dirs, filepath.Join(verifDir, root, e.Name()))
			}
		}
	}
	sort.Strings(dirs)
	self, _ := os.Executable()
	fails := 0
	var lines []string
	for _, d := range dirs {
		name := filepath.Base(d)
		if len(args) > 0 {
			keep := false
			for _, a := range args {
				if strings.HasPrefix(name, a) {
					keep = true
				}
			}
			if !keep {
				continue
			}
		}
		mb, err := os.ReadFile(filepath.Join(d, "meta.json"))
		if err != nil {
			continue
		}
		var meta mutantMeta
		var raw map[string]any
		json.Unmarshal(mb, &raw)
		json.Unmarshal(mb, &meta)
		if meta.Property == "" {
			if v, ok := raw["breaks"].(string); ok {
				meta.Property = v
			}
		}
		if meta.Expect == "" {
			meta.Expect = "violation"
		}
		scratch, err := os.MkdirTemp(scratchRoot(), "verif-mutant-")
		if err != nil {
			return 2
		}
		res := func() string {
			defer os.RemoveAll(scratch)
			repoCopy := filepath.Join(scratch, "repo")
			if out, err := exec.Command("git", "clone", "-q", "--shared", repoDir, repoCopy).CombinedOutput(); err != nil {
				return "ERROR clone: " + string(out)
			}
			// carry over uncommitted changes of the working tree
			if diff, _ := exec.Command("git", "-C", repoDir, "diff", "HEAD").Output(); len(diff) > 0 {
				c := exec.Command("git", "-C", repoCopy, "apply")
				c.Stdin = strings.NewReader(string(diff))
				c.Run()
			}
			if out, err := exec.Command("git", "-C", repoCopy, "apply", filepath.Join(d, "patch.diff")).CombinedOutput(); err != nil {
				return "ERROR patch does not apply: " + string(out)
			}
			tier := meta.Tier
			if tier == "" {
				tier = "quick"
			}
			c := exec.Command(self, "check", meta.Property, tier)
			c.Env = append(os.Environ(), "VERIF_REPO="+repoCopy, "VERIF_DIR="+filepath.Join(scratch, "verifdir"), "VERIF_SEED="+fmt.Sprint(baseSeed()))
			if meta.Scale != "" {
				c.Env = append(c.Env, "VERIF_SCALE="+meta.Scale)
			}
			// the check writes evidence and replays below VERIF_DIR: give it a private copy of what it reads
			os.MkdirAll(filepath.Join(scratch, "verifdir"), 0o755)
			os.Symlink(filepath.Join(verifDir, "sim"), filepath.Join(scratch, "verifdir", "sim"))
			if kf, err := os.ReadFile(filepath.Join(verifDir, "known_findings.json")); err == nil {
				os.WriteFile(filepath.Join(scratch, "verifdir", "known_findings.json"), kf, 0o644)
			}
			out, err := c.CombinedOutput()
			code := 0
			if ee, ok := err.(*exec.ExitError); ok {
				code = ee.ExitCode()
			} else if err != nil {
				return "ERROR " + err.Error()
			}
			var classes []string
			for _, l := range strings.Split(string(out), "\n") {
				if strings.HasPrefix(l, "  class: ") {
					classes = append(classes, strings.TrimPrefix(l, "  class: "))
				}
			}
			switch {
			case code == 1 && strings.Contains(string(out), "VIOLATION property="+meta.Property):
				return "VIOLATION [" + strings.Join(classes, "; ") + "]"
			case code == 0:
				return "clean"
			}
			return fmt.Sprintf("ERROR exit %d: %s", code, firstLines(string(out), 15))
		}()
		// "missed": the change genuinely breaks the property (its demonstration is confirmed) but lies outside what this
		// machinery reaches (DESIGN 8.4); it is kept so that the miss stays visible, and being caught is fine too
		ok := (meta.Expect == "violation" && strings.HasPrefix(res, "VIOLATION")) || (meta.Expect == "clean" && res == "clean") ||
			(meta.Expect == "missed" && (res == "clean" || strings.HasPrefix(res, "VIOLATION")))
		status := "ok  "
		if !ok {
			status = "FAIL"
			fails++
		}
		line := fmt.Sprintf("%s %-38s %s expect=%-9s got=%s", status, name, meta.Property, meta.Expect, res)
		fmt.Println(line)
		lines = append(lines, line)
	}
	fmt.Printf("sensitivity: %d patch(es), %d unexpected result(s)\n", len(lines), fails)
	if fails > 0 {
		return 1
	}
	return 0
}
