package main

import "fmt"

func selftest(kind string, args []string) int {
	fmt.Println("selftest", kind, "not built yet")
	return 2
}
