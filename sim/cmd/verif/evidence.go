package main

import (
	"encoding/json"
	"fmt"
	"os"
	"path/filepath"
	"sort"

	"verif/sim/proto"
)

type aggregate struct {
	prop, tier   string
	seed         uint64
	plan         propPlan
	evaluations  int
	perFlavour   map[string]int
	distinct     map[string]bool // trace hashes of non-trivial runs
	allHashes    map[string]bool
	faults       map[string]int
	probes       map[string]int
	tags         map[string]map[string]int
	outcomes     map[string]int
	samples      []json.RawMessage
	steps        int64
	simNs        int64
	deaths       int
	violations   int
	knownHits    map[string]int
	wall         float64
	exploreWall  float64
	stoppedEarly bool
	stalls       int

	perFlavourPlanned map[string]int
}

func newAggregate(prop, tier string, seed uint64, plan propPlan) *aggregate {
	return &aggregate{prop: prop, tier: tier, seed: seed, plan: plan, perFlavour: map[string]int{}, distinct: map[string]bool{}, allHashes: map[string]bool{},
		faults: map[string]int{}, probes: map[string]int{}, tags: map[string]map[string]int{}, outcomes: map[string]int{}}
}

func (a *aggregate) add(flavour string, e *proto.End) {
	a.evaluations++
	a.perFlavour[flavour]++
	a.allHashes[e.TraceHash] = true
	if e.Nontriv {
		a.distinct[e.TraceHash] = true
	}
	for k, v := range e.Faults {
		if v > 0 {
			a.faults[k]++
		}
	}
	for k, v := range e.Probes {
		if v > 0 {
			a.probes[k]++
		}
	}
	for k, v := range e.Tags {
		if a.tags[k] == nil {
			a.tags[k] = map[string]int{}
		}
		a.tags[k][v]++
	}
	a.outcomes[e.Outcome]++
	a.steps += int64(e.Steps)
	a.simNs += e.SimNs
	if e.Sample != nil && len(a.samples) < 6 {
		a.samples = append(a.samples, e.Sample)
	}
}

func (a *aggregate) addStall(class string) { a.stalls++ }

func (a *aggregate) addDeath(flavour string) {
	a.evaluations++
	a.perFlavour[flavour]++
	a.deaths++
}

// required probes / fault kinds per property: a zero means the workload did not reach what the check is about
var requiredCounters = map[string][]string{
	"C13": {"fault:cancel_mid", "fault:pre_cancel", "fault:deadline_expiry_mid", "fault:cancel_after_find", "fault:simultaneous_finds", "fault:watcher_starved",
		"probe:find_and_cancel", "probe:all_workers_sent", "probe:watcher_woke_after_join", "probe:worker_saw_done_first_poll", "probe:err_cancelled", "probe:nonce_despite_cancel"},
	"C11": {"fault:simultaneous_finds"},
	"C12": {"probe:mixed_accept", "probe:fast_accept", "probe:passover_checked", "probe:mixed_reject_or_skip"},
}

func (a *aggregate) workloadWarnings() []string {
	var w []string
	for _, c := range requiredCounters[a.prop] {
		n := 0
		if c[:6] == "fault:" {
			n = a.faults[c[6:]]
		} else {
			n = a.probes[c[6:]]
		}
		if n == 0 {
			w = append(w, fmt.Sprintf("counter %s stayed at zero in this batch: the workload did not reach it", c))
		}
	}
	return w
}

func (a *aggregate) write() error {
	cov := map[string]any{
		"evaluations":                    a.evaluations,
		"distinct_nontrivial":            len(a.distinct),
		"distinct_traces":                len(a.allHashes),
		"rule":                           a.plan.Rule,
		"samples":                        a.samples,
		"runs_per_flavour":               a.perFlavour,
		"fault_kinds_fired":              a.faults,
		"probes_hit":                     a.probes,
		"outcomes":                       a.outcomes,
		"histograms":                     a.tags,
		"scheduler_steps":                a.steps,
		"simulated_time_s":               float64(a.simNs) / 1e9,
		"simulated_time_note":            "50 us of simulated time per scheduler step plus the fake-clock jumps to context deadlines (12 h + the plan's offset each); the library reads no clock, so simulated time is not a meaningful coverage measure here",
		"runs_per_hour":                  int(float64(a.evaluations) / (a.exploreWall + 1e-9) * 3600),
		"seeds":                          fmt.Sprintf("run i uses seed mix(VERIF_SEED=%d, property, tier, i), i in [0,n) per flavour", a.seed),
		"components_real":                a.plan.Real,
		"components_stub":                a.plan.Stub,
		"children_died":                  a.deaths,
		"stalled_runs_inconclusive":      a.stalls,
		"known_findings_hit":             a.knownHits,
		"workload_warnings":              a.workloadWarnings(),
		"exhaustive":                     false,
		"stopped_early_after_violations": a.stoppedEarly,
	}
	if len(a.samples) == 0 {
		cov["samples"] = []any{"no sample recorded"}
	}
	ev := map[string]any{
		"property_id": a.prop,
		"tier":        a.tier,
		"seed":        int64(a.seed & 0x7fffffffffffffff),
		"level":       "exploration",
		"coverage":    cov,
		"assumptions": a.plan.Assume,
		"wall_s":      a.wall,
		"violations":  a.violations,
	}
	b, err := json.MarshalIndent(ev, "", " ")
	if err != nil {
		return err
	}
	dir := filepath.Join(verifDir, "evidence")
	if err := os.MkdirAll(dir, 0o755); err != nil {
		return err
	}
	return os.WriteFile(filepath.Join(dir, a.prop+".json"), append(b, '\n'), 0o644)
}

func sortedKeys(m map[string]int) []string {
	var ks []string
	for k := range m {
		ks = append(ks, k)
	}
	sort.Strings(ks)
	return ks
}
