package main

var powReal = []string{"pow.Worker.Mine and pow/v2 Worker.Mine with every goroutine they start (real code, real channels, WaitGroup, atomics, select)", "package context (cancellation, deadlines on the synctest fake clock)",
	"worker loop, nonce encoding, BLAKE2b digest, lane tests checkStateTrits / stateToInt / toInt", "iota.go batched Curl (always executed; its result is used in real-hash runs)", "pow.Score / v2.Score on returned nonces (real-hash runs)"}
var powStub = []string{"in stub-hash runs the 243-word hash state handed to the lane test is replaced by a seeded oracle (crafted hashes around the thresholds); the Go scheduler is replaced by the seeded scheduler at the verif yield points"}

var plans = map[string]propPlan{
	"C13": {
		Engine:   "powsim",
		Quick:    []flavPlan{{"plain", 16000, 200}, {"race", 2400, 50}},
		Thorough: []flavPlan{{"plain", 600000, 1000}, {"race", 60000, 200}},
		Rule: "one evaluation = one simulated Mine call (version, worker count, data, target, hash mode, find plan, cancellation plan, scheduling strategy all drawn from the run seed) executed under the seeded scheduler; " +
			"a run is non-trivial if the schedule switched actors at least twice and a find or a cancellation occurred; distinct = distinct hashes of the executed (actor, yield site) sequence among non-trivial runs",
		Real: powReal, Stub: powStub,
		Assume: []string{"schedules are explored at the granularity of the verif yield points (every shared-state operation of Mine is its own step)", "sampling, not enumeration", "linux/amd64, go1.26.8 toolchain (testing/synctest)",
			"Go race detector: no false positives, bounded history"},
	},
	"C11": {
		Engine:   "powsim",
		Quick:    []flavPlan{{"plain", 12000, 200}},
		Thorough: []flavPlan{{"plain", 400000, 1000}, {"race", 20000, 200}},
		Rule: "one evaluation = one simulated uncancelled v1 Mine call (workers 1..16, data, target at / one ulp around 3^k/len or trivially low, real or crafted hashes, scheduling strategy from the run seed); the returned nonce is judged by the reference score and by pow.Score; " +
			"non-trivial if at least two actor switches occurred and a worker found a nonce; distinct = distinct (actor, yield site) sequences among those",
		Real: powReal, Stub: powStub,
		Assume: []string{"reference Curl-P-81 / b1t6 / score written from the specifications, self-tested against the published Curl vectors", "BLAKE2b-256 from golang.org/x/crypto is trusted", "sampling, not enumeration"},
	},
	"C12": {
		Engine:   "powsim",
		Quick:    []flavPlan{{"plain", 12000, 200}},
		Thorough: []flavPlan{{"plain", 400000, 1000}, {"race", 20000, 200}},
		Rule: "one evaluation = one simulated uncancelled v2 Mine call (single worker with pass-over scan, or 1..16 workers for soundness; len*target at / around 3^s, up to 2^64-1; real or crafted hashes at T-1, T, T+1, Q, Q+1, one-zero-fewer lanes on both sides of the threshold, lanes 0 / 63); " +
			"non-trivial if at least two actor switches occurred and a worker found a nonce; distinct = distinct (actor, yield site) sequences among those",
		Real: powReal, Stub: powStub,
		Assume: []string{"reference difficulty / score in math/big written from the statement", "pass-over scan limited to the first 65536 nonces (never reached in practice; counted if truncated)", "sampling, not enumeration"},
	},
}
