package main

var powReal = []string{"pow.Worker.Mine and pow/v2 Worker.Mine with every goroutine they start (real code, real channels, WaitGroup, atomics, select)", "package context (cancellation, deadlines on the synctest fake clock)",
	"worker loop, nonce encoding, BLAKE2b digest, lane tests checkStateTrits / stateToInt / toInt", "iota.go batched Curl (always executed; its result is used in real-hash runs)", "pow.Score / v2.Score on returned nonces (real-hash runs)"}
var powStub = []string{"in stub-hash runs the 243-word hash state handed to the lane test is replaced by a seeded oracle (crafted hashes around the thresholds); the Go scheduler is replaced by the seeded scheduler at the verif yield points"}

var plans = map[string]propPlan{
	"C13": {
		Engine:   "powsim",
		Quick:    []flavPlan{{"plain", 14000, 200}, {"race", 2400, 50}, {"auto", 5000, 100}, {"autorace", 600, 25}, {"386", 2000, 100}},
		Thorough: []flavPlan{{"plain", 500000, 1000}, {"race", 60000, 200}, {"auto", 200000, 500}, {"autorace", 12000, 50}, {"386", 60000, 500}},
		Rule: "one evaluation = one simulated Mine call (version, worker count, data, target, hash mode, find plan, cancellation plan, scheduling strategy all drawn from the run seed) executed under the seeded scheduler; " +
			"a run is non-trivial if the schedule switched actors at least twice and a find or a cancellation occurred; distinct = distinct hashes of the executed (actor, yield site) sequence among non-trivial runs",
		Real: powReal, Stub: powStub,
		Assume: []string{"schedules are explored at the granularity of the verif yield points (every shared-state operation of Mine is its own step)", "sampling, not enumeration", "linux/amd64, go1.26.8 toolchain (testing/synctest)",
			"Go race detector: no false positives, bounded history"},
	},
	"C11": {
		Engine:   "powsim",
		Quick:    []flavPlan{{"plain", 16000, 200}, {"auto", 4000, 100}, {"386", 2000, 100}},
		Thorough: []flavPlan{{"plain", 400000, 1000}, {"race", 20000, 200}, {"auto", 40000, 500}, {"386", 40000, 500}},
		Rule: "one evaluation = one simulated uncancelled v1 Mine call (workers 1..16, data, target at / one ulp around 3^k/len or trivially low, real or crafted hashes, scheduling strategy from the run seed); the returned nonce is judged by the reference score and by pow.Score; " +
			"non-trivial if at least two actor switches occurred and a worker found a nonce; distinct = distinct (actor, yield site) sequences among those",
		Real: powReal, Stub: powStub,
		Assume: []string{"reference Curl-P-81 / b1t6 / score written from the specifications, self-tested against the published Curl vectors", "BLAKE2b-256 from golang.org/x/crypto is trusted", "sampling, not enumeration"},
	},
	"C12": {
		Engine:   "powsim",
		Quick:    []flavPlan{{"plain", 16000, 200}, {"auto", 4000, 100}, {"386", 2000, 100}},
		Thorough: []flavPlan{{"plain", 250000, 1000}, {"race", 20000, 200}, {"auto", 40000, 500}, {"386", 40000, 500}},
		Rule: "one evaluation = one simulated uncancelled v2 Mine call (single worker with pass-over scan, or 1..16 workers for soundness; len*target at / around 3^s, up to 2^64-1; real or crafted hashes at T-1, T, T+1, Q, Q+1, one-zero-fewer lanes on both sides of the threshold, lanes 0 / 63); " +
			"non-trivial if at least two actor switches occurred and a worker found a nonce; distinct = distinct (actor, yield site) sequences among those",
		Real: powReal, Stub: powStub,
		Assume: []string{"reference difficulty / score in math/big written from the statement", "pass-over scan limited to the first 65536 nonces (never reached in practice; counted if truncated)", "sampling, not enumeration"},
	},
	"C02": {
		Engine:   "slipsim",
		Quick:    []flavPlan{{"plain", 18000, 200}, {"race", 300, 10}},
		Thorough: []flavPlan{{"plain", 600000, 2000}, {"race", 6000, 50}},
		Rule: "one evaluation = one sequence of 3..16 API operations (NewMasterKey, DeriveChild hardened / non-hardened at boundary and random indices, Public, DeriveKeyFromPath) on one of the three curves wrapped in a fault-injecting Curve/Key double " +
			"(retryable invalid-key faults as a keyed predicate over the candidate bytes at rate 0 / 0.5 / 0.9 / 0.99, permanent errors at the n-th collaborator call), every result compared with the reference model under the same fault plan; " +
			"non-trivial if at least one injected fault fired; distinct = distinct hashes of the (operation kind, outcome, retry count, fault position) sequence among those",
		Real: []string{"pkg/slip10 (NewMasterKey, DeriveKeyFromPath, DeriveChild, Public, Fingerprint)", "the real curve implementations behind the double: slip10/elliptic (secp256k1 via internal btccurve, P-256) and slip10/eddsa"},
		Stub: []string{"the Curve/Key collaborator is wrapped: before delegating to the real curve it may return ErrInvalidKey (retryable) or a permanent error, as decided by the run's seeded fault plan"},
		Assume: []string{"reference SLIP-0010 model in sim/ref written from the specification (own Jacobian curve arithmetic, stdlib HMAC/SHA/ed25519), self-tested against the published SLIP-0010 vectors including the retry vectors", "sampling, not enumeration",
			"the real curves' own validity boundary (k = 0, k >= n, sum = 0) is not reachable by HMAC outputs and is not decided here"},
	},
	"C06": {
		Engine:   "curlsim",
		Quick:    []flavPlan{{"plain", 14000, 200}, {"purego", 5000, 200}, {"racepurego", 800, 25}, {"386", 3000, 200}},
		Thorough: []flavPlan{{"plain", 300000, 2000}, {"purego", 150000, 2000}, {"racepurego", 15000, 100}, {"386", 60000, 1000}},
		Rule: "one evaluation = one history of 4..16 calls (Absorb of 0..3 blocks in six trit patterns, Squeeze of 0..3 blocks, Clone, Reset with a new batch size, CopyState, and injected caller errors: empty batch, 65 lanes, trit count not a multiple of 243) over up to 4 live handles with batch sizes 1..64, " +
			"each handle compared after every call with its own set of independent single-lane reference sponges; non-trivial if the history has at least two state-changing calls; distinct = distinct hashes of the executed call sequence (handle, call, sizes, pattern) among those. " +
			"Both build configurations of the permutation (amd64 assembly = flavour plain, portable = flavour purego) are run",
		Real:   []string{"pkg/curl: Curl.Absorb, Squeeze, Clone, Reset, CopyState, in/out bit-plane packing, transform (assembly and portable)"},
		Stub:   []string{"nothing is stubbed; there is no scheduler or I/O in this component - the simulator contributes generated call histories over several handles, injected caller errors, the reference model, shrinking and replay"},
		Assume: []string{"reference Curl-P-81 (trit level, one lane) written from the specification and self-tested against the published vectors", "sampling, not enumeration", "lanes beyond the supplied batch are not compared (the property says nothing about them)"},
	},
}
