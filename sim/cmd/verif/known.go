package main

import (
	"encoding/json"
	"fmt"
	"os"
	"path/filepath"
)

type finding struct {
	Property  string         `json:"property"`
	Status    string         `json:"status"` // known | fixed
	ID        string         `json:"id"`
	Class     string         `json:"class"`
	Signature map[string]any `json:"signature"`
	What      string         `json:"what"`
	Commit    string         `json:"commit,omitempty"`
}

type knownFile struct {
	Findings []finding `json:"findings"`
}

// loadKnown reads /verif/known_findings.json; it is never written at run time.
func loadKnown() *knownFile {
	var k knownFile
	b, err := os.ReadFile(filepath.Join(verifDir, "known_findings.json"))
	if err != nil {
		return &k
	}
	if err := json.Unmarshal(b, &k); err != nil {
		fatal(2, "known_findings.json: %v", err)
	}
	return &k
}

// match returns the known (not fixed) finding that covers exactly this violation, if any.
func (k *knownFile) match(prop, class string, sig map[string]any) *finding {
	for i := range k.Findings {
		f := &k.Findings[i]
		if f.Status != "known" || f.Property != prop || f.Class != class {
			continue
		}
		ok := true
		for key, want := range f.Signature {
			if fmt.Sprint(sig[key]) != fmt.Sprint(want) {
				ok = false
			}
		}
		if ok && len(f.Signature) > 0 {
			return f
		}
	}
	return nil
}
