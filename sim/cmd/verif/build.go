package main

import (
	"bytes"
	"fmt"
	"os"
	"os/exec"
	"path/filepath"
	"strings"
	"sync"

	"verif/sim/autoyield"
)

// builder compiles the child binaries from the current working tree of the repository into a scratch
// directory that is removed on exit.
type builder struct {
	dir  string
	mu   sync.Mutex
	bins map[string]string
}

func newBuilder() *builder {
	dir, err := os.MkdirTemp(scratchRoot(), "verif-build-")
	if err != nil {
		fatal(2, "scratch directory: %v", err)
	}
	return &builder{dir: dir, bins: map[string]string{}}
}

func scratchRoot() string {
	if d := os.Getenv("VERIF_SCRATCH"); d != "" {
		return d
	}
	return "/var/tmp"
}

func (b *builder) cleanup() { os.RemoveAll(b.dir) }

func goEnv() []string {
	env := os.Environ()
	env = append(env, "GOFLAGS=-mod=mod", "GOPROXY=off", "GOSUMDB=off", "GOTOOLCHAIN=local", "GOWORK=off")
	return env
}

// autoRepo copies the repository under test (without .git and large binaries) into the scratch directory
// and lets package autoyield turn every synchronisation operation of the PoW packages into a yield point.
func (b *builder) autoRepo() (string, error) {
	dst := filepath.Join(b.dir, "repo-auto")
	src, _ := filepath.Abs(repoDir)
	err := filepath.Walk(src, func(p string, info os.FileInfo, err error) error {
		if err != nil {
			return err
		}
		rel, _ := filepath.Rel(src, p)
		if info.IsDir() {
			if info.Name() == ".git" {
				return filepath.SkipDir
			}
			return os.MkdirAll(filepath.Join(dst, rel), 0o755)
		}
		if !info.Mode().IsRegular() || info.Size() > 4<<20 {
			return nil
		}
		data, err := os.ReadFile(p)
		if err != nil {
			return err
		}
		return os.WriteFile(filepath.Join(dst, rel), data, 0o644)
	})
	if err != nil {
		return "", err
	}
	// the generated helpers are generic functions: the copy's go.mod must allow them (the loop-variable semantics of
	// the repository's "go 1.17" are kept: they only change with go 1.22)
	if gm, err := os.ReadFile(filepath.Join(dst, "go.mod")); err == nil {
		lines := strings.Split(string(gm), "\n")
		for i, l := range lines {
			if strings.HasPrefix(l, "go 1.") {
				lines[i] = "go 1.20"
			}
		}
		os.WriteFile(filepath.Join(dst, "go.mod"), []byte(strings.Join(lines, "\n")), 0o644)
	}
	for _, pkg := range []string{"pkg/pow", "pkg/pow/v2"} {
		if _, err := autoyield.Package(filepath.Join(dst, pkg)); err != nil {
			return "", fmt.Errorf("auto-yield instrumentation: %w", err)
		}
	}
	return dst, nil
}

// modfile writes a copy of sim/go.mod whose replace directive points at the repository under test.
func (b *builder) modfile() (string, error) {
	return b.modfileFor(repoDir, "go.mod")
}

func (b *builder) modfileFor(repo, name string) (string, error) {
	simDir := filepath.Join(verifDir, "sim")
	src, err := os.ReadFile(filepath.Join(simDir, "go.mod"))
	if err != nil {
		return "", err
	}
	abs, _ := filepath.Abs(repo)
	out := strings.Replace(string(src), "=> /repo", "=> "+abs, 1)
	mf := filepath.Join(b.dir, name)
	if err := os.WriteFile(mf, []byte(out), 0o644); err != nil {
		return "", err
	}
	sum, err := os.ReadFile(filepath.Join(simDir, "go.sum"))
	if err != nil {
		return "", err
	}
	return mf, os.WriteFile(strings.TrimSuffix(mf, ".mod")+".sum", sum, 0o644)
}

// isAuto: the flavours built from the auto-instrumented scratch copy of the repository.
func isAuto(f string) bool { return f == "auto" || f == "autorace" }

func flavourFlags(f string) []string {
	switch f {
	case "plain":
		return []string{"-tags", "verif"}
	case "race":
		return []string{"-tags", "verif", "-race"}
	case "purego":
		return []string{"-tags", "verif,purego"}
	case "auto":
		return []string{"-tags", "verif,verifauto"}
	case "autorace":
		return []string{"-tags", "verif,verifauto", "-race"}
	case "racepurego":
		return []string{"-tags", "verif,purego", "-race"}
	case "386":
		return []string{"-tags", "verif"} // built with GOARCH=386: 32-bit words, 4-byte alignment of 64-bit fields
	}
	panic("unknown flavour " + f)
}

// binary returns the path of the child binary of the given flavour, building it on first use.
func (b *builder) binary(flavour string) (string, error) {
	b.mu.Lock()
	defer b.mu.Unlock()
	if p, ok := b.bins[flavour]; ok {
		return p, nil
	}
	mf, err := b.modfile()
	if isAuto(flavour) {
		var ar string
		if ar, err = b.autoRepo(); err == nil {
			mf, err = b.modfileFor(ar, "auto.mod")
		}
	}
	if err != nil {
		return "", err
	}
	out := filepath.Join(b.dir, "child-"+flavour+".test")
	args := append([]string{"test", "-c", "-vet=off", "-modfile=" + mf}, flavourFlags(flavour)...)
	args = append(args, "-o", out, "./child")
	cmd := exec.Command(goBin, args...)
	cmd.Dir = filepath.Join(verifDir, "sim")
	cmd.Env = goEnv()
	if flavour == "386" {
		cmd.Env = append(cmd.Env, "GOARCH=386", "CGO_ENABLED=0")
	}
	var buf bytes.Buffer
	cmd.Stdout, cmd.Stderr = &buf, &buf
	if err := cmd.Run(); err != nil {
		return "", fmt.Errorf("building the %s child from %s failed: %v\n%s", flavour, repoDir, err, buf.String())
	}
	b.bins[flavour] = out
	return out, nil
}
