package main

import (
	"encoding/json"
	"os"
	"path/filepath"
	"time"

	"verif/sim/proto"
)

// shrink minimises a confirmed replay file by delta debugging; every candidate is executed in a fresh
// child and kept only if it ends in the same violation class. It returns nil if nothing got smaller.
func shrink(engine, bin string, rf *proto.ReplayFile, deadline time.Time) *proto.ReplayFile {
	dir, err := os.MkdirTemp(scratchRoot(), "verif-shrink-")
	if err != nil {
		return nil
	}
	defer os.RemoveAll(dir)
	tmp := filepath.Join(dir, "cand.json")
	cur := *rf
	improved := false
	tries := 0
	test := func(c *proto.ReplayFile) bool {
		if time.Now().After(deadline) {
			return false
		}
		tries++
		if writeReplay(tmp, c) != nil {
			return false
		}
		got, _ := replayClassWant(bin, tmp, c.Flavour, rf.Class)
		return got == rf.Class
	}
	accept := func(c proto.ReplayFile) bool {
		if test(&c) {
			cur = c
			improved = true
			return true
		}
		return false
	}

	// 1. configuration
	var cfg map[string]any
	if json.Unmarshal(cur.Config, &cfg) == nil {
		withCfg := func(mut func(m map[string]any) bool) {
			var m map[string]any
			json.Unmarshal(cur.Config, &m)
			if !mut(m) {
				return
			}
			b, _ := json.Marshal(m)
			c := cur
			c.Config = b
			accept(c)
		}
		switch engine {
		case "powsim":
			withCfg(func(m map[string]any) bool {
				st, ok := m["stub"].(map[string]any)
				if !ok || st["decoy_per_mille"] == nil {
					return false
				}
				delete(st, "decoy_per_mille")
				return true
			})
			// fewer workers
			for _, nw := range []float64{1, 2, 3, 4, 8} {
				withCfg(func(m map[string]any) bool {
					cur, _ := m["workers"].(float64)
					if nw >= cur {
						return false
					}
					m["workers"] = nw
					return true
				})
			}
			// drop crafted hashes one by one (from the end)
			for {
				var m map[string]any
				json.Unmarshal(cur.Config, &m)
				st, _ := m["stub"].(map[string]any)
				sp, _ := st["specials"].([]any)
				removed := false
				for i := len(sp) - 1; i >= 0 && !removed; i-- {
					withCfg(func(m map[string]any) bool {
						st := m["stub"].(map[string]any)
						sp := st["specials"].([]any)
						if i >= len(sp) {
							return false
						}
						st["specials"] = append(append([]any{}, sp[:i]...), sp[i+1:]...)
						return true
					})
					var m2 map[string]any
					json.Unmarshal(cur.Config, &m2)
					st2, _ := m2["stub"].(map[string]any)
					sp2, _ := st2["specials"].([]any)
					if len(sp2) < len(sp) {
						removed = true
					}
				}
				if !removed || time.Now().After(deadline) {
					break
				}
			}
		}
	}

	// 2. schedule (powsim) — truncate the tail, then remove chunks
	if len(cur.Choices) > 0 {
		// shortest prefix that still fails (the replay continues round-robin after the list)
		lo, hi := 0, len(cur.Choices)
		for lo < hi && !time.Now().After(deadline) {
			mid := (lo + hi) / 2
			c := cur
			c.Choices = append([]int{}, cur.Choices[:mid]...)
			if test(&c) {
				hi = mid
				cur, improved = c, true
			} else {
				lo = mid + 1
			}
		}
		cur.Choices = ddminInts(cur.Choices, func(cand []int) bool {
			c := cur
			c.Choices = cand
			if test(&c) {
				improved = true
				return true
			}
			return false
		}, deadline)
	}

	// 3. operation list (slipsim, curlsim): "ops" inside the configuration
	if engine != "powsim" {
		var m map[string]any
		if json.Unmarshal(cur.Config, &m) == nil {
			if ops, ok := m["ops"].([]any); ok && len(ops) > 1 {
				idx := make([]int, len(ops))
				for i := range idx {
					idx[i] = i
				}
				build := func(keep []int) json.RawMessage {
					var sel []any
					for _, i := range keep {
						sel = append(sel, ops[i])
					}
					m["ops"] = sel
					b, _ := json.Marshal(m)
					return b
				}
				kept := ddminInts(idx, func(cand []int) bool {
					if len(cand) == 0 {
						return false
					}
					c := cur
					c.Config = build(cand)
					if test(&c) {
						improved = true
						return true
					}
					return false
				}, deadline)
				cur.Config = build(kept)
			}
		}
	}
	if !improved {
		return nil
	}
	out := cur
	return &out
}

// ddminInts removes chunks of xs while ok(candidate) stays true.
func ddminInts(xs []int, ok func([]int) bool, deadline time.Time) []int {
	n := 2
	for len(xs) >= 1 && !time.Now().After(deadline) {
		chunk := (len(xs) + n - 1) / n
		reduced := false
		for start := 0; start < len(xs); start += chunk {
			end := start + chunk
			if end > len(xs) {
				end = len(xs)
			}
			cand := append(append([]int{}, xs[:start]...), xs[end:]...)
			if ok(cand) {
				xs = cand
				if n > 2 {
					n--
				}
				reduced = true
				break
			}
			if time.Now().After(deadline) {
				return xs
			}
		}
		if !reduced {
			if chunk <= 1 {
				break
			}
			n *= 2
			if n > len(xs) {
				n = len(xs)
			}
		}
	}
	return xs
}
