// Command verif is the driver of the simulator: build the child binaries from the repository's
// current working tree, fan runs out to child processes, collect their records, confirm / minimise /
// write replay files for violations, write the evidence file, set the exit code.
//
// Exit codes: 0 property held on everything explored; 1 violation (a line
// "VIOLATION property=<id> replay=<path>" is printed); 2 trouble of the machinery itself
// (build failure, watchdog, unreproducible event) — never reported as a violation.
package main

import (
	"fmt"
	"os"
	"path/filepath"
	"runtime"
	"strconv"
)

var (
	verifDir = envOr("VERIF_DIR", "/verif")
	repoDir  = envOr("VERIF_REPO", "/repo")
	goBin    = envOr("VERIF_GO", "go1.26.8")
	procs    = procCount()
)

func envOr(k, d string) string {
	if v := os.Getenv(k); v != "" {
		return v
	}
	return d
}

func procCount() int {
	if v, err := strconv.Atoi(os.Getenv("VERIF_PROCS")); err == nil && v > 0 {
		return v
	}
	n := runtime.NumCPU()
	if n > 16 {
		n = 16
	}
	return n
}

func baseSeed() uint64 {
	if v := os.Getenv("VERIF_SEED"); v != "" {
		if n, err := strconv.ParseUint(v, 10, 64); err == nil {
			return n
		}
		if n, err := strconv.ParseInt(v, 10, 64); err == nil {
			return uint64(n)
		}
		fatal(2, "VERIF_SEED is not an integer: %q", v)
	}
	return 1
}

func fatal(code int, format string, a ...any) {
	fmt.Fprintf(os.Stderr, "verif: "+format+"\n", a...)
	os.Exit(code)
}

func usage() {
	fatal(2, "usage: verif check <property> <quick|thorough> | replay <file> | build | selftest <determinism|sensitivity> [args]")
}

func main() {
	if len(os.Args) < 2 {
		usage()
	}
	switch os.Args[1] {
	case "check":
		if len(os.Args) != 4 {
			usage()
		}
		os.Exit(check(os.Args[2], os.Args[3]))
	case "replay":
		if len(os.Args) != 3 {
			usage()
		}
		p, _ := filepath.Abs(os.Args[2])
		os.Exit(replayCmd(p))
	case "build":
		b := newBuilder()
		defer b.cleanup()
		for _, f := range []string{"plain", "race", "purego", "auto", "autorace", "racepurego", "386"} {
			if _, err := b.binary(f); err != nil {
				fatal(2, "%v", err)
			}
		}
	case "selftest":
		if len(os.Args) < 3 {
			usage()
		}
		os.Exit(selftest(os.Args[2], os.Args[3:]))
	default:
		usage()
	}
}
