package main

import (
	"bufio"
	"bytes"
	"context"
	"encoding/json"
	"fmt"
	"os"
	"os/exec"
	"regexp"
	"runtime"
	"strings"
	"sync"
	"sync/atomic"
	"time"

	"verif/sim/proto"
)

// death describes a child that died between a BEGIN and its END.
var pinCounter atomic.Uint64

// quotaScript makes /sys/fs/cgroup, in a private mount namespace, look like that of a container limited to half a CPU.
const quotaScript = `mount -t tmpfs none /sys/fs/cgroup && mkdir -p /sys/fs/cgroup/cpu && echo "50000 100000" > /sys/fs/cgroup/cpu.max && echo 50000 > /sys/fs/cgroup/cpu/cpu.cfs_quota_us && echo 100000 > /sys/fs/cgroup/cpu/cpu.cfs_period_us`

var (
	quotaOnce sync.Once
	quotaOK   bool
)

// quotaPossible: can this process create a mount namespace and mount a tmpfs in it (root, or CAP_SYS_ADMIN)? If not,
// the chunks meant for it run like any other and the evidence says that the configuration was not exercised.
func quotaPossible() bool {
	quotaOnce.Do(func() {
		if _, err := exec.LookPath("unshare"); err != nil {
			return
		}
		quotaOK = exec.Command("unshare", "-m", "sh", "-c", quotaScript+" && test -r /sys/fs/cgroup/cpu.max").Run() == nil
	})
	return quotaOK
}

type death struct {
	RunNote string // the run's NOTE line (kind of target), if it printed one before it died
	Begin   proto.Begin
	Class   string
	Note    string // the relevant part of stderr
	Exit    int
	Config  json.RawMessage // from a verbose re-run
	Choices []int           // steps journalled before the process died
}

type chunkResult struct {
	ends    []proto.End
	stalls  []death // runs the child's stall watchdog gave up on: inconclusive
	deaths  []death
	trouble string // non-empty: infrastructure problem (timeout, malformed output)
}

type tailBuffer struct {
	head, tail bytes.Buffer
}

func (t *tailBuffer) Write(p []byte) (int, error) {
	n := len(p)
	if room := 48<<10 - t.head.Len(); room > 0 {
		if len(p) <= room {
			t.head.Write(p)
			return n, nil
		}
		t.head.Write(p[:room])
		p = p[room:]
	}
	t.tail.Write(p)
	if t.tail.Len() > 64<<10 {
		b := t.tail.Bytes()
		keep := append([]byte(nil), b[len(b)-32<<10:]...)
		t.tail.Reset()
		t.tail.Write(keep)
	}
	return n, nil
}

func (t *tailBuffer) String() string {
	if t.tail.Len() == 0 {
		return t.head.String()
	}
	return t.head.String() + "\n...\n" + t.tail.String()
}

// childProcs lets the determinism self-test pin GOMAXPROCS per child (keyed by the spec's Tag).
func childGOMAXPROCS(spec proto.Spec) string {
	if spec.GoMaxProcs > 0 {
		return fmt.Sprint(spec.GoMaxProcs)
	}
	return envOr("VERIF_CHILD_GOMAXPROCS", "2")
}

// runChild executes one child process for spec and returns what it reported. If the child dies in the
// middle of a run, the death is recorded and, unless single is set, a fresh child continues after it.
func runChild(bin string, spec proto.Spec, timeout time.Duration) chunkResult {
	var res chunkResult
	for {
		ends, d, trouble, next := runChildOnce(bin, spec, timeout)
		res.ends = append(res.ends, ends...)
		if trouble != "" {
			res.trouble = trouble
			return res
		}
		if d == nil {
			return res
		}
		if strings.HasPrefix(d.Class, "stall:") {
			res.stalls = append(res.stalls, *d)
		} else {
			res.deaths = append(res.deaths, *d)
		}
		if spec.Replay != "" || next >= spec.To {
			return res
		}
		spec.From = next
	}
}

func runChildOnce(bin string, spec proto.Spec, timeout time.Duration) (ends []proto.End, d *death, trouble string, next int) {
	sj, _ := json.Marshal(spec)
	ctx, cancel := context.WithTimeout(context.Background(), timeout)
	defer cancel()
	cmd := exec.CommandContext(ctx, bin, "-test.run", "^TestChild$", "-test.timeout", "0")
	if spec.OneCPU {
		if ts, err := exec.LookPath("taskset"); err == nil {
			// spread the pinned children over the processors (chunk starts are multiples of the chunk size, so
			// "start mod processors" put every one of them on processor 0 or 8, where they queued behind each other
			// until the watchdog ended them when two checks happened to run at once)
			cpu := int(pinCounter.Add(1)+uint64(os.Getpid())) % runtime.NumCPU()
			cmd = exec.CommandContext(ctx, ts, "-c", fmt.Sprint(cpu), bin, "-test.run", "^TestChild$", "-test.timeout", "0")
		}
	}
	if spec.CPUQuota && quotaPossible() {
		cmd = exec.CommandContext(ctx, "unshare", "-m", "sh", "-c", quotaScript+` && exec "$0" "$@"`, bin, "-test.run", "^TestChild$", "-test.timeout", "0")
	}
	cmd.Env = append(os.Environ(), "VERIF_SPEC="+string(sj), "GORACE=halt_on_error=1 exitcode=66 history_size=7", "GOMAXPROCS="+childGOMAXPROCS(spec))
	var stderr tailBuffer
	cmd.Stderr = &stderr
	stdout, err := cmd.StdoutPipe()
	if err != nil {
		return nil, nil, err.Error(), 0
	}
	if err := cmd.Start(); err != nil {
		return nil, nil, "cannot start child: " + err.Error(), 0
	}
	sc := bufio.NewScanner(stdout)
	sc.Buffer(make([]byte, 1<<20), 256<<20)
	var open *proto.Begin
	var cfg json.RawMessage
	var choices []int
	var stdoutRest strings.Builder
	stall := ""
	runNote := "" // the NOTE line of the run in progress (its kind of target)
	for sc.Scan() {
		line := sc.Text()
		switch {
		case strings.HasPrefix(line, "BEGIN "):
			var b proto.Begin
			if err := json.Unmarshal([]byte(line[6:]), &b); err != nil {
				trouble = "malformed BEGIN: " + line
			}
			open, cfg, choices, runNote = &b, nil, nil, ""
		case strings.HasPrefix(line, "END "):
			var e proto.End
			if err := json.Unmarshal([]byte(line[4:]), &e); err != nil {
				trouble = "malformed END: " + err.Error()
			}
			if spec.Verbose && e.Config == nil {
				e.Config = cfg
			}
			ends = append(ends, e)
			open = nil
		case strings.HasPrefix(line, "STALL "):
			stall = line[6:]
		case strings.HasPrefix(line, "NOTE "):
			runNote = line[5:]
		case strings.HasPrefix(line, "CONFIG "):
			cfg = json.RawMessage(line[7:])
		case strings.HasPrefix(line, "S "):
			var step, who int
			fmt.Sscanf(line[2:], "%d %d", &step, &who)
			choices = append(choices, who)
		default:
			if stdoutRest.Len() < 16<<10 {
				stdoutRest.WriteString(line + "\n")
			}
		}
	}
	werr := cmd.Wait()
	if ctx.Err() != nil {
		at := "between runs"
		if open != nil {
			at = fmt.Sprintf("in run %d (seed %d)", open.Run, open.Seed)
		}
		return ends, nil, fmt.Sprintf("child exceeded the %v watchdog %s", timeout, at), 0
	}
	if trouble != "" {
		return ends, nil, trouble, 0
	}
	if open != nil {
		code := -1
		if ee, ok := werr.(*exec.ExitError); ok {
			code = ee.ExitCode()
		}
		all := stderr.String() + "\n" + stdoutRest.String()
		class, note := classifyDeath(all, code)
		if stall != "" && code == 3 {
			class, note = "stall:"+stall, stall
			if isAuto(spec.Flavour) && strings.HasPrefix(stall, "spin") {
				// in the auto-instrumented build every synchronisation operation is a yield and lock waits are
				// yields: 15 s of CPU time without reaching one is a goroutine of Mine computing or spinning
				// without synchronisation, which no other goroutine can end
				class = "hang:no-synchronisation-point-reached"
				note = "a goroutine of the run burnt 15 s of CPU without reaching any synchronisation operation (" + stall + ")\n" + stderr.String()
				if len(note) > 6000 {
					note = note[:6000]
				}
			}
		}
		return ends, &death{RunNote: runNote, Begin: *open, Class: class, Note: note, Exit: code, Config: cfg, Choices: choices}, "", open.Run + 1
	}
	if werr != nil {
		return ends, nil, fmt.Sprintf("child failed outside a run: %v\n%s\n%s", werr, stderr.String(), stdoutRest.String()), 0
	}
	return ends, nil, "", 0
}

var (
	reRepoFrame = regexp.MustCompile(`(?m)^\s*(github\.com/wollac/iota-crypto-demo/[^\s(]+[^\s]*)\(`)
	rePanic     = regexp.MustCompile(`(?m)^panic: (.*)$`)
	reFatal     = regexp.MustCompile(`(?m)^fatal error: (.*)$`)
	reGoexit    = regexp.MustCompile(`\s*\[recovered\].*$`)
)

func shortFrame(f string) string {
	f = strings.TrimPrefix(f, "github.com/wollac/iota-crypto-demo/")
	if i := strings.LastIndex(f, "/"); i >= 0 {
		f = f[i+1:]
	}
	return f
}

// classifyDeath turns the output of a dead child into a violation class.
func classifyDeath(out string, code int) (class, note string) {
	note = out
	if len(note) > 6000 {
		note = note[:6000] + "\n..."
	}
	if i := strings.Index(out, "WARNING: DATA RACE"); i >= 0 {
		rep := out[i:]
		if j := strings.Index(rep, "=================="); j > 0 {
			rep = rep[:j]
		}
		// first repository frame of each of the two conflicting accesses
		var frames []string
		for _, part := range strings.Split(rep, "\n\n") {
			if !(strings.Contains(part, "Write at") || strings.Contains(part, "Read at") || strings.Contains(part, "Previous write") || strings.Contains(part, "Previous read") ||
				strings.Contains(part, "write at") || strings.Contains(part, "read at")) {
				continue
			}
			if m := reRepoFrame.FindStringSubmatch(part); m != nil {
				frames = append(frames, shortFrame(m[1]))
			} else {
				frames = append(frames, "?")
			}
			if len(frames) == 2 {
				break
			}
		}
		n := rep
		if len(n) > 6000 {
			n = n[:6000]
		}
		return "race:" + strings.Join(frames, "|"), n
	}
	if m := rePanic.FindStringSubmatch(out); m != nil {
		msg := reGoexit.ReplaceAllString(m[1], "")
		if i := strings.Index(out, m[0]); i >= 0 {
			note = out[i:]
			if len(note) > 6000 {
				note = note[:6000] + "\n..."
			}
		}
		return "panic:" + strings.TrimSpace(msg), note
	}
	if m := reFatal.FindStringSubmatch(out); m != nil {
		return "fatal:" + strings.TrimSpace(m[1]), note
	}
	return fmt.Sprintf("death:exit-%d", code), note
}
