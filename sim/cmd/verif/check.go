package main

import (
	"encoding/json"
	"fmt"
	"os"
	"path/filepath"
	"sort"
	"strings"
	"sync"
	"time"

	"verif/sim/proto"
)

type flavPlan struct {
	Flavour string
	Runs    int
	Chunk   int
}

type propPlan struct {
	Engine   string
	Quick    []flavPlan
	Thorough []flavPlan
	Rule     string
	Real     []string
	Stub     []string
	Assume   []string
}

func scaleRuns(n int) int {
	if v := os.Getenv("VERIF_SCALE"); v != "" {
		var f float64
		if _, err := fmt.Sscanf(v, "%g", &f); err == nil && f > 0 {
			n = int(float64(n) * f)
			if n < 1 {
				n = 1
			}
		}
	}
	return n
}

// candidate violation, from an END record or from a dead child
type violation struct {
	OneCPU    bool
	CPUQuota  bool
	ChunkFrom int
	Flavour   string
	Run       int
	Seed      uint64
	Class     string
	Message   string
	Sig       map[string]any
	Config    json.RawMessage
	Choices   []int
	IsDeath   bool
}

type checkState struct {
	prop, tier string
	plan       propPlan
	b          *builder
	seed       uint64
	start      time.Time
}

func check(prop, tier string) int {
	plan, ok := plans[prop]
	if !ok {
		fatal(2, "no check for property %q (claimed: %s)", prop, strings.Join(planIDs(), ", "))
	}
	if tier != "quick" && tier != "thorough" {
		fatal(2, "tier must be quick or thorough")
	}
	cs := &checkState{prop: prop, tier: tier, plan: plan, b: newBuilder(), seed: baseSeed(), start: time.Now()}
	defer cs.b.cleanup()
	code := cs.run()
	return code
}

func planIDs() []string {
	var ids []string
	for k := range plans {
		ids = append(ids, k)
	}
	sort.Strings(ids)
	return ids
}

type task struct {
	bin  string
	spec proto.Spec
}

func (cs *checkState) run() int {
	fl := cs.plan.Quick
	if cs.tier == "thorough" {
		fl = cs.plan.Thorough
	}
	fmt.Printf("verif: property %s tier %s VERIF_SEED=%d repo=%s procs=%d\n", cs.prop, cs.tier, cs.seed, repoDir, procs)
	var tasks []task
	perFlavour := map[string]int{}
	for _, f := range fl {
		bin, err := cs.b.binary(f.Flavour)
		if err != nil {
			fmt.Fprintln(os.Stderr, err)
			return 2
		}
		runs := scaleRuns(f.Runs)
		perFlavour[f.Flavour] = runs
		chunk := f.Chunk
		if chunk*procs > runs {
			chunk = runs/procs + 1
		}
		for from := 0; from < runs; from += chunk {
			to := from + chunk
			if to > runs {
				to = runs
			}
			// children of successive chunks run with GOMAXPROCS 2, 1, 4, 3: results do not depend on it (6.1), code under
			// test that consults the number of processors sees several values
			gmp := [...]int{2, 1, 4, 3}[(from/chunk)%4]
			// every seventh chunk runs pinned to ONE processor (runtime.NumCPU() == 1): a configuration some code special-cases
			one := (from/chunk)%7 == 3
			// every eleventh chunk of the proof-of-work checks runs where the process sees a container CPU quota of half a
			// processor: code that sizes itself by the quota meets a value below one
			quota := cs.plan.Engine == "powsim" && (from/chunk)%11 == 5 && !one
			tasks = append(tasks, task{bin, proto.Spec{Prop: cs.prop, Tier: cs.tier, BaseSeed: cs.seed, From: from, To: to, Flavour: f.Flavour, GoMaxProcs: gmp, OneCPU: one, CPUQuota: quota}})
		}
	}
	fmt.Printf("verif: built %d flavour(s) in %.1fs; %d chunks\n", len(fl), time.Since(cs.start).Seconds(), len(tasks))

	agg := newAggregate(cs.prop, cs.tier, cs.seed, cs.plan)
	var (
		mu         sync.Mutex
		viols      []violation
		troubles   []string
		deathsOutside     int
		deathsOutsideNote string
		stallNotes []string
		stallsBy   = map[string]int{}
		spinStalls int
		abandoned  = map[string]bool{}
		wg         sync.WaitGroup
		ch         = make(chan task)
	)
	for i := 0; i < procs; i++ {
		wg.Add(1)
		go func() {
			defer wg.Done()
			for t := range ch {
				r := runChild(t.bin, t.spec, childTimeout(cs.tier))
				mu.Lock()
				for i := range r.ends {
					e := &r.ends[i]
					// configurations of the process the run was executed in count as injected conditions of the run
					if t.spec.OneCPU {
						if e.Faults == nil {
							e.Faults = map[string]int{}
						}
						e.Faults["process_pinned_to_one_cpu"] = 1
					}
					if t.spec.CPUQuota && quotaPossible() {
						if e.Faults == nil {
							e.Faults = map[string]int{}
						}
						e.Faults["container_cpu_quota_of_half_a_cpu"] = 1
					}
					agg.add(t.spec.Flavour, e)
					if e.Class != "" {
						viols = append(viols, violation{OneCPU: t.spec.OneCPU, CPUQuota: t.spec.CPUQuota, ChunkFrom: t.spec.From, Flavour: t.spec.Flavour, Run: e.Run, Seed: e.Seed, Class: e.Class, Message: e.Message, Sig: e.Signature, Config: e.Config, Choices: e.Choices})
						for _, m := range e.More {
							viols = append(viols, violation{OneCPU: t.spec.OneCPU, CPUQuota: t.spec.CPUQuota, ChunkFrom: t.spec.From, Flavour: t.spec.Flavour, Run: e.Run, Seed: e.Seed, Class: m.Class, Message: m.Message, Sig: m.Signature, Config: e.Config, Choices: e.Choices})
						}
					}
				}
				for _, d := range r.deaths {
					agg.addDeath(t.spec.Flavour)
					if outsideClause(cs.prop, d) {
						// C11 says "does not crash the process for trivially low targets"; whether Mine returns at all
						// for other targets is C13's clause, and C13's runs include them
						deathsOutside++
						if deathsOutsideNote == "" {
							deathsOutsideNote = fmt.Sprintf("run %d (seed %d, %s, target %q): %s", d.Begin.Run, d.Begin.Seed, t.spec.Flavour, d.RunNote, d.Class)
						}
						continue
					}
					viols = append(viols, violation{OneCPU: t.spec.OneCPU, CPUQuota: t.spec.CPUQuota, ChunkFrom: t.spec.From, Flavour: t.spec.Flavour, Run: d.Begin.Run, Seed: d.Begin.Seed, Class: d.Class, Message: d.Note, IsDeath: true})
				}
				for _, st := range r.stalls {
					agg.addStall(st.Class)
					stallsBy[t.spec.Flavour]++
					if !strings.Contains(st.Class, "mutex") {
						spinStalls++
					}
					if len(stallNotes) < 3 {
						stallNotes = append(stallNotes, fmt.Sprintf("run %d (seed %d, %s): %s", st.Begin.Run, st.Begin.Seed, t.spec.Flavour, st.Note))
					}
				}
				if r.trouble != "" {
					troubles = append(troubles, r.trouble)
				}
				mu.Unlock()
			}
		}()
	}
	known := loadKnown()
	stoppedEarly := false
	for _, t := range tasks {
		// a batch that has already produced plenty of new violations has decided the check: stop exploring
		mu.Lock()
		fresh := 0
		for _, v := range viols {
			if known.match(cs.prop, v.Class, v.Sig) == nil {
				fresh++
			}
		}
		mu.Unlock()
		if fresh >= 25 {
			stoppedEarly = true
			break
		}
		mu.Lock()
		skip := stallsBy[t.spec.Flavour] >= 12
		if skip && !abandoned[t.spec.Flavour] {
			abandoned[t.spec.Flavour] = true
			fmt.Printf("verif: flavour %s abandoned after %d stalled runs\n", t.spec.Flavour, stallsBy[t.spec.Flavour])
		}
		mu.Unlock()
		if skip {
			continue
		}
		ch <- t
	}
	close(ch)
	wg.Wait()
	if stoppedEarly {
		fmt.Printf("verif: stopped dispatching further runs after %d violation records\n", len(viols))
	}
	agg.stoppedEarly = stoppedEarly
	exploreWall := time.Since(cs.start).Seconds()

	// violations: split into known findings and new ones
	sort.Slice(viols, func(i, j int) bool {
		if viols[i].Flavour != viols[j].Flavour {
			return viols[i].Flavour < viols[j].Flavour
		}
		return viols[i].Run < viols[j].Run
	})
	knownHit := map[string]int{}
	var fresh []violation
	for _, v := range viols {
		if k := known.match(cs.prop, v.Class, v.Sig); k != nil {
			knownHit[k.ID]++
			continue
		}
		fresh = append(fresh, v)
	}
	for _, k := range known.Findings {
		if n := knownHit[k.ID]; n > 0 {
			fmt.Printf("KNOWN-FINDING: property=%s %s [%s; %d run(s) in this check]\n", cs.prop, k.What, k.ID, n)
		}
	}
	agg.knownHits = knownHit

	exit := 0
	var reported []string
	if len(fresh) > 0 {
		// one report per violation class, earliest run first, at most four classes
		seen := map[string]bool{}
		budget := 60 * time.Second
		if cs.tier == "thorough" {
			budget = 5 * time.Minute
		}
		deadline := time.Now().Add(budget)
		// a record that does not reproduce (the race detector's history is bounded: the same pair of accesses is not
		// reported in every execution of the same run) does not decide its class: up to three records of a class are
		// tried before the class is given up as trouble of the machinery
		tried := map[string]int{}
		var failed = map[string]string{}
		for _, v := range fresh {
			if seen[v.Class] || len(seen) >= 4 || tried[v.Class] >= 3 {
				continue
			}
			tried[v.Class]++
			path, ok, why := cs.confirmAndWrite(v, deadline)
			if !ok {
				failed[v.Class] = fmt.Sprintf("a %q event in run %d (seed %d, %s) was observed but could not be reproduced: %s\n%s", v.Class, v.Run, v.Seed, v.Flavour, why, indent(firstLines(v.Message, 60)))
				continue
			}
			seen[v.Class] = true
			delete(failed, v.Class)
			fmt.Printf("VIOLATION property=%s replay=%s\n", cs.prop, path)
			fmt.Printf("  class: %s\n  %s\n", v.Class, indent(firstLines(v.Message, 12)))
			reported = append(reported, path)
			exit = 1
		}
		var classes []string
		for c := range failed {
			classes = append(classes, c)
		}
		sort.Strings(classes)
		for _, c := range classes {
			troubles = append(troubles, failed[c])
		}
	}
	if deathsOutside > 0 {
		fmt.Printf("verif: note: %d run(s) ended with the death of the process for a target that is not trivially low, which no clause of %s covers (C13 decides whether Mine returns), e.g. %s\n", deathsOutside, cs.prop, deathsOutsideNote)
	}
	if agg.stalls > 0 {
		fmt.Printf("verif: %d run(s) stalled and were counted as inconclusive (outside the auto-instrumented flavour the cooperative scheduler cannot resolve a spin-wait or a sync.Mutex held by a parked actor), e.g. %s\n", agg.stalls, strings.Join(stallNotes, "; "))
		// stalls are trouble when nothing else covers the code: spin-waits anywhere, any stall in the auto
		// flavour, or mutex stalls in a check that has no auto flavour
		hasAuto := false
		for _, f := range fl {
			if isAuto(f.Flavour) {
				hasAuto = true
			}
		}
		if spinStalls*20 > agg.evaluations || stallsBy["auto"]+stallsBy["autorace"] > 0 || (!hasAuto && agg.stalls*20 > agg.evaluations) {
			troubles = append(troubles, fmt.Sprintf("%d runs stalled (%d not on a mutex, %d in the auto flavour): the remaining runs cannot decide the property", agg.stalls, spinStalls, stallsBy["auto"]+stallsBy["autorace"]))
		}
	}
	agg.violations = len(fresh)
	agg.wall = time.Since(cs.start).Seconds()
	agg.exploreWall = exploreWall
	agg.perFlavourPlanned = perFlavour
	if err := agg.write(); err != nil {
		fmt.Fprintf(os.Stderr, "verif: cannot write evidence: %v\n", err)
		return 2
	}
	fmt.Printf("verif: %s %s: %d runs (%d distinct non-trivial), %d violation record(s), %d known-finding record(s), %.1fs\n",
		cs.prop, cs.tier, agg.evaluations, len(agg.distinct), len(fresh), len(viols)-len(fresh), agg.wall)
	if len(troubles) > 0 {
		for _, t := range troubles {
			fmt.Fprintf(os.Stderr, "verif: TROUBLE: %s\n", firstLines(t, 30))
		}
		if exit == 0 {
			return 2
		}
	}
	if w := agg.workloadWarnings(); len(w) > 0 {
		for _, s := range w {
			fmt.Printf("verif: note: %s\n", s)
		}
	}
	return exit
}

// outsideClause: a process death that the property of the check says nothing about. C11's only clause about crashes is
// "Mine does not crash the process for trivially low targets"; a panic of Mine in a C11 run with another kind of target
// (known from the run's NOTE line) is left to C13 ("Mine returns either a nonce or the cancellation error"), whose
// generator draws boundary targets as well.
func outsideClause(prop string, d death) bool {
	return prop == "C11" && strings.HasPrefix(d.Class, "panic:") && d.RunNote != "" && !strings.HasPrefix(d.RunNote, "low") && !strings.HasPrefix(d.RunNote, "crowd")
}

func childTimeout(tier string) time.Duration {
	if tier == "thorough" {
		return 90 * time.Minute
	}
	return 15 * time.Minute
}

func firstLines(s string, n int) string {
	lines := strings.Split(s, "\n")
	if len(lines) > n {
		lines = append(lines[:n], "...")
	}
	return strings.Join(lines, "\n")
}

func indent(s string) string { return strings.ReplaceAll(s, "\n", "\n  ") }

func sanitize(s string) string {
	var b strings.Builder
	for _, r := range s {
		switch {
		case r >= 'a' && r <= 'z', r >= 'A' && r <= 'Z', r >= '0' && r <= '9', r == '-', r == '.':
			b.WriteRune(r)
		default:
			b.WriteByte('_')
		}
		if b.Len() >= 60 {
			break
		}
	}
	return b.String()
}

// confirmAndWrite turns a candidate into a replay file: obtain config and schedule, replay twice,
// minimise, write.
func (cs *checkState) confirmAndWrite(v violation, deadline time.Time) (path string, ok bool, why string) {
	bin, err := cs.b.binary(v.Flavour)
	if err != nil {
		return "", false, err.Error()
	}
	rf := proto.ReplayFile{Property: cs.prop, Engine: cs.plan.Engine, Flavour: v.Flavour, Class: v.Class, Message: v.Message, Signature: v.Sig,
		Seed: v.Seed, Tier: cs.tier, Run: v.Run, Config: v.Config, Choices: v.Choices, OneCPU: v.OneCPU, CPUQuota: v.CPUQuota}
	if v.IsDeath || rf.Config == nil {
		// re-run that single run with journalling to learn its configuration and the schedule up to the death
		r := runChild(bin, proto.Spec{Prop: cs.prop, Tier: cs.tier, BaseSeed: cs.seed, From: v.Run, To: v.Run + 1, Flavour: v.Flavour, Verbose: true, OneCPU: v.OneCPU, CPUQuota: v.CPUQuota}, 10*time.Minute)
		switch {
		case r.trouble != "":
			return "", false, r.trouble
		case len(r.deaths) == 1:
			d := r.deaths[0]
			if d.Class != v.Class {
				return "", false, fmt.Sprintf("re-running the seed gave %q instead", d.Class)
			}
			rf.Config, rf.Choices, rf.DeathNote = d.Config, d.Choices, d.Note
		case len(r.ends) == 1:
			e := r.ends[0]
			if e.Class != v.Class {
				return "", false, fmt.Sprintf("re-running the seed gave class %q instead", e.Class)
			}
			rf.Config, rf.Choices = e.Config, e.Choices
		default:
			return "", false, "re-running the seed produced no record"
		}
		if rf.Config == nil {
			return "", false, "no configuration recorded"
		}
	}
	dir := filepath.Join(verifDir, "replays")
	os.MkdirAll(dir, 0o755)
	path = filepath.Join(dir, fmt.Sprintf("%s-%d-%s.json", cs.prop, v.Seed, sanitize(v.Class)))
	if err := writeReplay(path, &rf); err != nil {
		return "", false, err.Error()
	}
	// The replay must reproduce the same class twice. A run is a pure function of its replay file unless the code
	// under test contains a select with several ready cases (the unchanged tree has none; Go resolves it with an
	// unseedable coin): then up to eight attempts are made and two of them must reproduce. If the recorded schedule
	// cannot be followed at all, fall back to replaying by seed.
	confirm := func() (hits, attempts int, last, note string) {
		for attempts < 8 && hits < 2 {
			attempts++
			last, note = replayClassWant(bin, path, v.Flavour, v.Class)
			if last == v.Class {
				hits++
			} else if attempts >= 3 && hits == 0 {
				break
			}
		}
		return
	}
	hits, attempts, last, note := confirm()
	if hits < 2 && !rf.BySeed {
		rf.BySeed, rf.Choices = true, nil
		if err := writeReplay(path, &rf); err != nil {
			return "", false, err.Error()
		}
		hits, attempts, last, note = confirm()
	}
	if hits < 2 && v.Run > v.ChunkFrom {
		// perhaps the run depends on state an earlier run of the same child left behind in the package under test:
		// replay it after the runs that preceded it in its chunk, then try to get by with the last few of them
		var all []int
		for i := v.ChunkFrom; i < v.Run; i++ {
			all = append(all, i)
		}
		rf.BySeed, rf.Choices, rf.BaseSeed, rf.Prelude = true, nil, cs.seed, all
		writeReplay(path, &rf)
		if hits, attempts, last, note = confirm(); hits >= 2 {
			for _, n := range []int{1, 2, 4, 16} {
				if n >= len(all) {
					break
				}
				short := rf
				short.Prelude = all[len(all)-n:]
				writeReplay(path, &short)
				if h, _, _, _ := confirm(); h >= 2 {
					rf = short
					break
				}
			}
			rf.ReplayNote = fmt.Sprintf("the violation needs the %d preceding run(s) of the check executed in the same process first: the package under test keeps state between calls", len(rf.Prelude))
			writeReplay(path, &rf)
			return path, true, ""
		}
	}
	if hits < 2 {
		os.Remove(path)
		return "", false, fmt.Sprintf("%d of %d replays reproduced it; the last gave %q (%s)", hits, attempts, last, firstLines(note, 5))
	}
	if attempts > 2 {
		rf.ReplayNote = fmt.Sprintf("reproduced in %d of %d replay attempts: the code under test makes a choice the simulator cannot seed (a select with several ready cases); repeat the replay if it comes back clean", hits, attempts)
		writeReplay(path, &rf)
		return path, true, ""
	}
	if rf.BySeed {
		return path, true, ""
	}
	orig := map[string]any{"steps": len(rf.Choices)}
	min := shrink(cs.plan.Engine, bin, &rf, deadline)
	if min != nil {
		min.MinimisedFrom = orig
		if err := writeReplay(path, min); err != nil {
			return "", false, err.Error()
		}
		if got, _ := replayClassWant(bin, path, v.Flavour, v.Class); got != v.Class {
			// keep the unminimised one
			writeReplay(path, &rf)
		}
	}
	return path, true, ""
}

func writeReplay(path string, rf *proto.ReplayFile) error {
	b, err := json.MarshalIndent(rf, "", " ")
	if err != nil {
		return err
	}
	return os.WriteFile(path, b, 0o644)
}

// replayClass runs a replay file in a fresh child and returns the violation class it ends with
// ("" if the run is clean, "diverged" if the schedule could not be followed).
func replayClass(bin, path, flavour string) (class, note string) {
	return replayClassWant(bin, path, flavour, "")
}

// replayClassWant is replayClass for runs that may end with several violations: if one of them has the
// class want, that one is returned.
func replayClassWant(bin, path, flavour, want string) (class, note string) {
	one, quota := replayOneCPU(path)
	r := runChild(bin, proto.Spec{Replay: path, Flavour: flavour, OneCPU: one, CPUQuota: quota}, 10*time.Minute)
	switch {
	case r.trouble != "":
		return "trouble", r.trouble
	case len(r.deaths) > 0:
		return r.deaths[0].Class, r.deaths[0].Note
	case len(r.ends) > 0:
		e := r.ends[0]
		if os.Getenv("VERIF_SHOW") != "" { // debugging aid: what the replayed run did
			fmt.Printf("verif: replayed run: outcome %q, %d steps, %d switches, tags %v, probes %v, faults %v\n  sample %s\n", e.Outcome, e.Steps, e.Switches, e.Tags, e.Probes, e.Faults, string(e.Sample))
		}
		if e.Diverged != "" {
			return "diverged", e.Diverged
		}
		for _, m := range e.More {
			if m.Class == want {
				return m.Class, m.Message
			}
		}
		return e.Class, e.Message
	}
	return "trouble", "no record"
}

// replayOneCPU reports whether the replay file asks for a child pinned to one processor.
func replayOneCPU(path string) (oneCPU, cpuQuota bool) {
	b, err := os.ReadFile(path)
	if err != nil {
		return false, false
	}
	var rf struct {
		OneCPU   bool `json:"one_cpu"`
		CPUQuota bool `json:"cpu_quota"`
	}
	json.Unmarshal(b, &rf)
	return rf.OneCPU, rf.CPUQuota
}

func replayCmd(path string) int {
	b, err := os.ReadFile(path)
	if err != nil {
		fatal(2, "%v", err)
	}
	var rf proto.ReplayFile
	if err := json.Unmarshal(b, &rf); err != nil {
		fatal(2, "%v", err)
	}
	bld := newBuilder()
	defer bld.cleanup()
	bin, err := bld.binary(rf.Flavour)
	if err != nil {
		fmt.Fprintln(os.Stderr, err)
		return 2
	}
	class, note := replayClassWant(bin, path, rf.Flavour, rf.Class)
	for i := 0; i < 7 && class != rf.Class && rf.ReplayNote != ""; i++ {
		class, note = replayClassWant(bin, path, rf.Flavour, rf.Class)
	}
	fmt.Printf("verif: replay of %s: recorded class %q, this run %q\n", path, rf.Class, class)
	switch {
	case class == rf.Class:
		if k := loadKnown().match(rf.Property, class, rf.Signature); k != nil {
			fmt.Printf("KNOWN-FINDING: property=%s %s [%s]\n", rf.Property, k.What, k.ID)
			return 0
		}
		fmt.Printf("VIOLATION property=%s replay=%s\n  %s\n", rf.Property, path, indent(firstLines(note, 40)))
		return 1
	case class == "":
		fmt.Println("verif: the run is clean on this tree")
		return 0
	case class == "diverged" || class == "trouble":
		fmt.Printf("verif: %s: %s\n", class, note)
		return 2
	}
	fmt.Printf("VIOLATION property=%s replay=%s\n  (different class than recorded)\n  %s\n", rf.Property, path, indent(firstLines(note, 40)))
	return 1
}
