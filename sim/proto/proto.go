// Package proto defines what the driver and the child processes exchange.
package proto

import "encoding/json"

// Spec tells a child which runs to execute.
type Spec struct {
	Prop     string `json:"prop"`
	Tier     string `json:"tier"`
	BaseSeed uint64 `json:"base_seed"`
	From     int    `json:"from"`
	To       int    `json:"to"` // exclusive
	Flavour  string `json:"flavour"`
	// Replay, if set, is the path of a replay file; From/To are ignored.
	Replay string `json:"replay,omitempty"`
	// Verbose makes the child include config and choices in every END record.
	Verbose bool `json:"verbose,omitempty"`
	// GoMaxProcs, if > 0, is the GOMAXPROCS the driver starts the child with (not read by the child).
	GoMaxProcs int `json:"gomaxprocs,omitempty"`
	// OneCPU makes the driver start the child pinned to a single processor (taskset), so that runtime.NumCPU() is 1.
	OneCPU bool `json:"one_cpu,omitempty"`
	// CPUQuota makes the driver start the child in a mount namespace of its own in which /sys/fs/cgroup shows a CPU quota
	// of half a processor (cgroup v2 cpu.max "50000 100000", cgroup v1 cpu.cfs_quota_us / cpu.cfs_period_us): what a
	// process sees in a container started with --cpus=0.5.
	CPUQuota bool `json:"cpu_quota,omitempty"`
}

// Begin is printed (one line, prefixed "BEGIN ") before a run starts.
type Begin struct {
	Prop    string `json:"prop"`
	Run     int    `json:"run"`
	Seed    uint64 `json:"seed"`
	Flavour string `json:"flavour"`
}

// End is printed (one line, prefixed "END ") after a run.
type End struct {
	Run       int               `json:"run"`
	Seed      uint64            `json:"seed"`
	Outcome   string            `json:"outcome"`
	Class     string            `json:"class,omitempty"`   // violation class, empty if the run is clean
	Message   string            `json:"message,omitempty"` // human-readable detail of the violation
	Signature map[string]any    `json:"signature,omitempty"`
	More      []Extra           `json:"more,omitempty"` // further violations of the same run
	Steps     int               `json:"steps"`
	Switches  int               `json:"switches"`
	TraceHash string            `json:"trace_hash"`
	Nontriv   bool              `json:"nontrivial"`
	Faults    map[string]int    `json:"faults,omitempty"`
	Probes    map[string]int    `json:"probes,omitempty"`
	Tags      map[string]string `json:"tags,omitempty"` // categorical descriptors (version, strategy, ...), histogrammed by the driver
	SimNs     int64             `json:"sim_ns,omitempty"`
	Diverged  string            `json:"diverged,omitempty"`
	WallUs    int64             `json:"wall_us,omitempty"` // measured by the child around the run; informational only
	Sample    json.RawMessage   `json:"sample,omitempty"`  // written for a few runs: the actual case
	Config    json.RawMessage   `json:"config,omitempty"`  // on violation (or verbose): the fully expanded configuration
	Choices   []int             `json:"choices,omitempty"`
	Ops       json.RawMessage   `json:"ops,omitempty"`
}

// Extra is a further violation observed in the same run after a continuable one.
type Extra struct {
	Class     string         `json:"class"`
	Message   string         `json:"message"`
	Signature map[string]any `json:"signature,omitempty"`
}

// ReplayFile is the self-contained description of one failing run.
type ReplayFile struct {
	Property      string          `json:"property"`
	Engine        string          `json:"engine"`
	Flavour       string          `json:"flavour"`
	Class         string          `json:"class"`
	Message       string          `json:"message"`
	Signature     map[string]any  `json:"signature,omitempty"`
	Seed          uint64          `json:"seed"`
	Tier          string          `json:"tier"`
	Run           int             `json:"run"`
	Config        json.RawMessage `json:"config"`
	Choices       []int           `json:"choices,omitempty"`
	MinimisedFrom map[string]any  `json:"minimised_from,omitempty"`
	DeathNote     string          `json:"death_note,omitempty"`
	// BySeed: the file replays by regenerating the run from its seed (property, tier, seed) and executing it under
	// the strategy the seed selects, instead of following Choices. Used when a recorded schedule cannot be followed.
	BySeed bool `json:"by_seed,omitempty"`
	// Prelude lists run indices (of the same check, same base seed) that the replaying child executes, in this
	// order and in the same process, before the run itself: for violations that depend on state a previous Mine /
	// derivation / hash call left behind in the package under test (caches, pools, globals).
	Prelude  []int  `json:"prelude,omitempty"`
	BaseSeed uint64 `json:"base_seed,omitempty"`
	// OneCPU: the run was observed in a child pinned to one processor (runtime.NumCPU() == 1); replays do the same.
	OneCPU bool `json:"one_cpu,omitempty"`
	// CPUQuota: the run was observed in a child that sees a container CPU quota of half a processor; replays do the same.
	CPUQuota bool `json:"cpu_quota,omitempty"`
	// Explore: a hand-written file (experiments): the configuration is run under its own seeded strategy instead of
	// following a recorded schedule.
	Explore bool `json:"explore,omitempty"`
	// ReplayNote is set when the violation did not reproduce in every confirmation attempt.
	ReplayNote string `json:"replay_note,omitempty"`
}
