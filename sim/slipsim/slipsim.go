// Package slipsim drives the SLIP-0010 implementation through its Curve / Key seam with a fault-injecting
// collaborator and compares every operation with the reference model run under the same fault plan.
package slipsim

import (
	"bytes"
	stdelliptic "crypto/elliptic"
	"encoding/hex"
	"encoding/json"
	"errors"
	"fmt"
	"math/big"
	"math/rand/v2"
	"runtime"
	"runtime/debug"
	"strings"
	"sync"
	"time"

	"github.com/wollac/iota-crypto-demo/pkg/slip10"
	"github.com/wollac/iota-crypto-demo/pkg/slip10/eddsa"
	"github.com/wollac/iota-crypto-demo/pkg/slip10/elliptic"

	"verif/sim/kernel"
	"verif/sim/proto"
	"verif/sim/ref"
)

// Op is one API operation of a run.
type Op struct {
	Kind    string   `json:"kind"` // master | child | public | path
	Src     int      `json:"src,omitempty"`
	SeedHex string   `json:"seed,omitempty"`
	Index   uint32   `json:"index,omitempty"`
	Path    []uint32 `json:"path,omitempty"`
	PermAt  int      `json:"perm_at,omitempty"` // n > 0: during this operation about one candidate in n makes the collaborator fail permanently (keyed by the candidate bytes)
	Wrapped bool     `json:"wrapped,omitempty"` // the permanent error is wrapped once more
	// Observe is the order in which the caller looks at a key this operation returns: "" compares every field with the
	// specification right away (fingerprint included); "neuter-first" takes Public() of the new key and checks THAT before
	// any accessor of the new key itself has been called; "lazy" looks at key bytes and chain code only and leaves the
	// rest to later operations and to the pass at the end of the run. An accessor that fills a cache on first use makes
	// the results depend on this order.
	Observe string `json:"observe,omitempty"`
	// OverlapAt > 0 (DeriveChild only): another caller derives a child (index OverlapIndex) of the SAME extended key
	// while this derivation is in progress — the other derivation runs from start to finish at the moment this one
	// makes its OverlapAt-th call into the pluggable key (Bytes, Public, Shift). That is the interleaving of two caller
	// threads at a seam the simulator owns; nothing runs in parallel. Both results must be what the specification says.
	OverlapAt    int    `json:"overlap_at,omitempty"`
	OverlapIndex uint32 `json:"overlap_index,omitempty"`
	OverlapWhat  string `json:"overlap_what,omitempty"` // "" = DeriveChild(OverlapIndex) | "public" = Public() and Fingerprint() of the same key
}

// Config is one run: a curve, a fault plan and a list of operations.
type Config struct {
	Prop           string `json:"prop"`
	Curve          string `json:"curve"`
	PlanSeed       uint64 `json:"plan_seed"`
	RejectPerMille int    `json:"reject_per_mille"`
	// AcceptOneIn > 0 replaces the rate: the predicate accepts one candidate in that many (10^4, 10^5): tens of thousands
	// of consecutive retries per key, the "large fraction" of the property taken seriously. Few operations per run.
	AcceptOneIn int `json:"accept_one_in,omitempty"`
	// Bare: no double at all - the package under test is handed the repository's own Curve and Key objects, the way an
	// application does. Everything the double injects is off (it is a fault-free configuration), but code in slip10
	// that recognises the concrete key types (a type switch "for speed") is only reached this way.
	Bare        bool `json:"bare,omitempty"`
	Warp        bool `json:"warp,omitempty"`         // the pluggable curve maps candidates to scalars at the edges of the valid range (elliptic curves only)
	WrapInvalid bool `json:"wrap_invalid,omitempty"` // retryable faults are returned as an error wrapping ErrInvalidKey
	Ops         []Op `json:"ops"`
}

var errInjected = errors.New("injected permanent curve error")

type stallPanic struct{ why string }

// world is the state of the fault-injecting collaborator.
type world struct {
	cfg        *Config
	calls      int
	rejects    int
	permAt     int
	wrapped    bool
	permFired  bool
	totalRej   int
	order      *big.Int          // group order of the curve, for the candidate mapping
	constShift map[string][]byte // serialized public parent -> the shift the curve uses for it (imported special parents)
	warped     int
	opIndex    int
	totalPerm  int
	extraSteps int

	// the overlapping derivation of the current operation (see Op.OverlapAt)
	ovArmed   bool
	ovAt      int
	ovCount   int
	ovSrc     *slip10.ExtendedKey
	ovIndex   uint32
	ovRan     bool
	ovKey     *slip10.ExtendedKey
	ovErr     error
	ovPanic   string
	ovCalls   int
	ovPublic  bool
	specCalls int // steps of the specification's retry chain for the current operation (known before the real call)
}

func (w *world) reject(cand []byte) bool {
	if w.cfg.RejectPerMille == 0 && w.cfg.AcceptOneIn == 0 {
		return false
	}
	h := w.cfg.PlanSeed
	for i := 0; i+8 <= len(cand); i += 8 {
		var v uint64
		for j := 0; j < 8; j++ {
			v = v<<8 | uint64(cand[i+j])
		}
		h = kernel.SplitMix64(h ^ v)
	}
	if w.cfg.AcceptOneIn > 0 {
		return h%uint64(w.cfg.AcceptOneIn) != 0
	}
	return int(h%1000) < w.cfg.RejectPerMille
}

// permanent decides, from the candidate bytes alone, whether the collaborator fails permanently on it during the
// current operation. Keying the fault to the candidate rather than to "the n-th call" keeps the reference model and
// the implementation in step even if an implementation consults the collaborator more than once per candidate.
func (w *world) permanent(cand []byte) bool {
	if w.permAt <= 0 {
		return false
	}
	h := kernel.Mix(w.cfg.PlanSeed, 4242, uint64(w.opIndex))
	for i := 0; i+8 <= len(cand); i += 8 {
		var v uint64
		for j := 0; j < 8; j++ {
			v = v<<8 | uint64(cand[i+j])
		}
		h = kernel.SplitMix64(h ^ v)
	}
	return h%uint64(w.permAt) == 0
}

var two256 = new(big.Int).Lsh(big.NewInt(1), 256)

// warp is the candidate mapping of the pluggable curve (Config.Warp): a deterministic function of the candidate and, where
// known, of the parent's scalar, that sends most candidates to the edges of the valid range — zero, the group order, the
// negative of the parent scalar (sum zero / point at infinity), values whose sum with the parent wraps around the order or
// stays just below it, the parent scalar itself (point doubling). The reference model applies the same mapping, so what is
// checked is slip10's control flow plus the real curve arithmetic exactly where HMAC outputs never land.
func (w *world) warp(kind string, il []byte, parent *big.Int, parentPub []byte) []byte {
	if c, ok := w.constShift[string(parentPub)]; ok && kind == "child" {
		w.warped++
		return c // an imported parent chosen so that this shift leads to a special point
	}
	if !w.cfg.Warp || w.order == nil {
		return il
	}
	h := kernel.Mix(w.cfg.PlanSeed, 777)
	for i := 0; i+8 <= len(il); i += 8 {
		var v uint64
		for j := 0; j < 8; j++ {
			v = v<<8 | uint64(il[i+j])
		}
		h = kernel.SplitMix64(h ^ v)
	}
	n := w.order
	small := big.NewInt(int64(1 + (h>>16)%1000))
	var c *big.Int
	switch sel := h % 16; {
	case sel < 5:
		return il
	case sel == 9:
		c = new(big.Int)
	case sel == 10:
		c = new(big.Int).Set(n)
	case sel == 11:
		c = new(big.Int).Sub(two256, big.NewInt(1))
	case sel == 13:
		c = big.NewInt(1)
	case sel == 14:
		c = new(big.Int).Sub(n, big.NewInt(1))
	case kind == "master":
		switch sel {
		case 5:
			c = new(big.Int).Add(n, small)
		case 6:
			c = small
		case 7:
			c = new(big.Int).Sub(n, small)
		case 8:
			c = new(big.Int).Lsh(big.NewInt(1), 255)
		default:
			return il
		}
	case parent != nil:
		switch sel {
		case 5:
			c = new(big.Int).Sub(n, parent) // sum = 0: invalid key / point at infinity
		case 6:
			c = new(big.Int).Sub(n, parent)
			c.Add(c, small) // the sum wraps around the order
		case 7:
			c = new(big.Int).Sub(n, parent)
			c.Sub(c, small) // the sum stays just below the order
		case 8:
			c = new(big.Int).Set(parent) // shift = own scalar: point doubling on the public side
		case 12:
			c = small
		default:
			c = new(big.Int).Sub(n, small)
		}
		if c.Sign() < 0 {
			c.Add(c, n)
		}
	default:
		return il
	}
	w.warped++
	return c.FillBytes(make([]byte, 32))
}

// callLimit: the double itself is the step counter of the run. The specification's retry chain for the operation is
// known before the implementation is called (the reference runs first, under the same fault plan); an implementation
// may validate a candidate more than once, so it gets four times that many calls and a thousand more before the
// operation is declared stuck. (A fixed bound per operation was wrong for very deep paths at a 99 % rejection rate.)
// Where the specification stops at an undefined derivation and the implementation (wrongly, and reported as such) goes
// on deriving, the rest of the path is not covered by the reference's count: 4000 calls per remaining step on top.
func (w *world) callLimit() int {
	perStep := 4000
	if w.cfg.AcceptOneIn > 0 {
		perStep = 40 * w.cfg.AcceptOneIn // the same margin for a curve that accepts one candidate in AcceptOneIn
	}
	return 4*w.specCalls + 1000 + perStep*w.extraSteps
}

func (w *world) decide(cand []byte) error {
	if w.permFired {
		panic(stallPanic{"the collaborator was called again after it had returned a permanent error"})
	}
	w.calls++
	if limit := w.callLimit(); w.calls > limit {
		panic(stallPanic{fmt.Sprintf("more than %d collaborator calls in one operation (the specification's retry chain for it has %d steps)", limit, w.specCalls)})
	}
	if w.permanent(cand) {
		w.permFired = true
		w.totalPerm++
		if w.wrapped {
			return fmt.Errorf("curve backend: %w", errInjected)
		}
		return errInjected
	}
	if w.reject(cand) {
		w.rejects++
		w.totalRej++
		if w.cfg.WrapInvalid {
			return fmt.Errorf("candidate %x... rejected: %w", cand[:4], slip10.ErrInvalidKey)
		}
		return slip10.ErrInvalidKey
	}
	return nil
}

type faultCurve struct {
	w     *world
	inner slip10.Curve
}

func (c faultCurve) Name() string    { return c.inner.Name() }
func (c faultCurve) HmacKey() []byte { return c.inner.HmacKey() }
func (c faultCurve) NewPrivateKey(buf []byte) (slip10.Key, error) {
	if err := c.w.decide(buf); err != nil {
		return nil, err
	}
	k, err := c.inner.NewPrivateKey(c.w.warp("master", buf, nil, nil))
	if err != nil {
		return nil, err
	}
	return newFaultKey(c.w, k, nil), nil
}

type faultKey struct {
	w      *world
	inner  slip10.Key
	scalar *big.Int // the private scalar, when the double knows it (private keys, and public keys derived from them)
}

func newFaultKey(w *world, inner slip10.Key, scalar *big.Int) *faultKey {
	if inner.IsPrivate() && w.order != nil {
		scalar = new(big.Int).SetBytes(inner.Bytes())
	}
	return &faultKey{w, inner, scalar}
}

// seam marks a call from the package under test into the pluggable key: the point at which the simulator may let the
// other caller's derivation of the same extended key run.
func (w *world) seam() {
	if !w.ovArmed {
		return
	}
	if w.ovCount++; w.ovCount != w.ovAt {
		return
	}
	w.ovArmed = false
	// the other derivation has its own fault-plan state: no permanent faults, its own call counter
	calls, rejects, permAt, wrapped, permFired, spec, extra := w.calls, w.rejects, w.permAt, w.wrapped, w.permFired, w.specCalls, w.extraSteps
	w.calls, w.rejects, w.permAt, w.permFired, w.specCalls, w.extraSteps = 0, 0, 0, false, 20000, 0
	func() {
		defer func() {
			if p := recover(); p != nil {
				if sp, ok := p.(stallPanic); ok {
					w.ovPanic = "stalled: " + sp.why
					return
				}
				w.ovPanic = fmt.Sprintf("%v\n%s", p, debug.Stack())
			}
		}()
		if w.ovPublic {
			w.ovKey = w.ovSrc.Public()
			_ = w.ovKey.Fingerprint()
			return
		}
		w.ovKey, w.ovErr = w.ovSrc.DeriveChild(w.ovIndex)
	}()
	w.ovRan, w.ovCalls = true, w.calls
	w.calls, w.rejects, w.permAt, w.wrapped, w.permFired, w.specCalls, w.extraSteps = calls, rejects, permAt, wrapped, permFired, spec, extra
}

func (k *faultKey) Bytes() []byte   { k.w.seam(); return k.inner.Bytes() }
func (k *faultKey) IsPrivate() bool { return k.inner.IsPrivate() }
func (k *faultKey) Public() slip10.Key {
	k.w.seam()
	return &faultKey{k.w, k.inner.Public(), k.scalar}
}
func (k *faultKey) Shift(b []byte) (slip10.Key, error) {
	k.w.seam()
	if err := k.w.decide(b); err != nil {
		return nil, err
	}
	var pub []byte
	if !k.inner.IsPrivate() {
		pub = k.inner.Bytes()
	}
	shift := k.w.warp("child", b, k.scalar, pub)
	c, err := k.inner.Shift(shift)
	if err != nil {
		return nil, err
	}
	var child *big.Int
	if k.scalar != nil && k.w.order != nil {
		child = new(big.Int).Add(k.scalar, new(big.Int).SetBytes(shift))
		child.Mod(child, k.w.order)
	}
	return newFaultKey(k.w, c, child), nil
}

func curves(name string) (slip10.Curve, *ref.SlipCurve) {
	switch name {
	case "secp256k1":
		return elliptic.Secp256k1(), ref.SlipSecp256k1
	case "nist256p1":
		return elliptic.Nist256p1(), ref.SlipNist256p1
	case "ed25519":
		return eddsa.Ed25519(), ref.SlipEd25519
	}
	panic("unknown curve " + name)
}

type handle struct {
	real  *slip10.ExtendedKey
	model *ref.XKey
}

type runState struct {
	cfg     *Config
	w       *world
	res     proto.End
	handles []handle
	hash    uint64
	log     []string
	stop    bool
}

// violate records a violation; continuable ones do not end the run.
func (r *runState) violate(class, msg string, sig map[string]any) {
	if r.res.Class == "" {
		r.res.Class, r.res.Message, r.res.Signature = class, msg, sig
	} else {
		for _, m := range r.res.More {
			if m.Class == class && fmt.Sprint(m.Signature) == fmt.Sprint(sig) {
				return
			}
		}
		if r.res.Class == class && fmt.Sprint(r.res.Signature) == fmt.Sprint(sig) {
			return
		}
		r.res.More = append(r.res.More, proto.Extra{Class: class, Message: msg, Signature: sig})
	}
	if class != "undefined-derivation-succeeded" && class != "permanent-error-lost" {
		r.stop = true
	}
}

func (r *runState) mix(s string) {
	for i := 0; i < len(s); i++ {
		r.hash ^= uint64(s[i])
		r.hash *= 1099511628211
	}
}

var firstUse sync.Once

// firstUseFromTwoGoroutines: before anything else has touched the package in this process, two goroutines that nothing
// orders with each other derive a few keys on every curve from a fixed seed - the real Curve and Key types, no double.
// Whatever the package (or the curve code below it) builds lazily on first use is built here, by two callers at once:
// the race flavour reports unsynchronised initialisation as the data race it is, and in every flavour both callers'
// results are compared with the reference. The two goroutines run truly in parallel - the one place in this engine
// where the Go scheduler, not the simulator, decides; on code without such state the results do not depend on it.
func (r *runState) firstUseFromTwoGoroutines() {
	seed := []byte("first use of the package in this process, by two callers at once")
	type out struct {
		curve, what string
		got, want   []byte
	}
	var res [2][]out
	var wg sync.WaitGroup
	for g := 0; g < 2; g++ {
		wg.Add(1)
		go func(g int) {
			defer wg.Done()
			defer func() {
				if p := recover(); p != nil {
					res[g] = append(res[g], out{"?", fmt.Sprintf("panic: %v", p), []byte{1}, nil})
				}
			}()
			for _, name := range []string{"secp256k1", "nist256p1", "ed25519"} {
				rc, mc := curves(name)
				mf := &ref.Faults{Reject: func([]byte) bool { return false }, Permanent: func([]byte) bool { return false }}
				mm, _ := ref.Master(mc, seed, mf)
				mk, err := slip10.NewMasterKey(append([]byte{}, seed...), rc)
				if err != nil {
					res[g] = append(res[g], out{name, "NewMasterKey: " + err.Error(), []byte{1}, nil})
					continue
				}
				idx := []uint32{1<<31 + uint32(g), 7}
				if name == "ed25519" {
					idx = []uint32{1<<31 + uint32(g), 1<<31 + 7}
				}
				k, m := mk, mm
				for _, ix := range idx {
					var e2 error
					if k, e2 = k.DeriveChild(ix); e2 != nil {
						res[g] = append(res[g], out{name, "DeriveChild: " + e2.Error(), []byte{1}, nil})
						break
					}
					m, _ = m.Child(ix, mf)
					res[g] = append(res[g], out{name, "key", append([]byte{}, k.Key.Bytes()...), m.Key},
						out{name, "chain code", append([]byte{}, k.ChainCode...), m.ChainCode},
						out{name, "public key", k.Key.Public().Bytes(), m.Public()},
						out{name, "fingerprint", k.Fingerprint(), m.Fingerprint()})
				}
			}
		}(g)
	}
	wg.Wait()
	r.res.Probes["first_derivations_of_the_process_made_by_two_goroutines"] = 1
	for g := range res {
		for _, o := range res[g] {
			if !bytes.Equal(o.got, o.want) {
				r.violate("model-divergence:first-use-from-two-goroutines", fmt.Sprintf("the first derivations of the process were made by two goroutines at the same time, on the repository's own curves; caller %d on %s: %s is %x, the specification says %x", g, o.curve, o.what, o.got, o.want), map[string]any{"curve": o.curve, "api": "first-use"})
				return
			}
		}
	}
}

// Run executes one configuration.
func Run(cfg *Config) proto.End {
	r := &runState{cfg: cfg, w: &world{cfg: cfg, constShift: map[string][]byte{}}, hash: 14695981039346656037}
	r.res.Faults, r.res.Probes, r.res.Tags = map[string]int{}, map[string]int{}, map[string]string{}
	realCurve, modelCurve := curves(cfg.Curve)
	if modelCurve.EC != nil {
		r.w.order = modelCurve.EC.N
	}
	var fc slip10.Curve = faultCurve{r.w, realCurve}
	if cfg.Bare {
		fc = realCurve
		r.res.Probes["real_curve_and_key_types_without_the_double"] = 1
	}
	// the first run of a process: the application's first derivations come from two goroutines at once (DESIGN 8.4, s82)
	firstUse.Do(func() { r.firstUseFromTwoGoroutines() })
	for i := range cfg.Ops {
		if r.stop {
			break
		}
		r.step(i, &cfg.Ops[i], fc, modelCurve)
	}
	// the end of the run: every extended key is looked at in full (keys observed lazily for the first time)
	if !r.stop {
		for j, h := range r.handles {
			if bad := compare(h.real, h.model); bad != "" {
				r.violate("model-divergence:"+bad, fmt.Sprintf("at the end of the run on %s: %s of extended key #%d differs from the specification (implementation %s, reference %s)", cfg.Curve, bad, j, describeReal(h.real), describeModel(h.model)), map[string]any{"curve": cfg.Curve, "api": "final-pass"})
				break
			}
		}
	}
	r.res.Steps = len(cfg.Ops)
	r.res.TraceHash = fmt.Sprintf("%016x", r.hash)
	r.res.Outcome = "ok"
	if r.res.Class != "" {
		r.res.Outcome = "violation"
		b, _ := json.Marshal(cfg)
		r.res.Config = b
	}
	if r.w.totalRej > 0 {
		r.res.Faults["retryable_invalid_key"] = r.w.totalRej
	}
	if r.w.totalPerm > 0 {
		r.res.Faults["permanent_error"] = r.w.totalPerm
	}
	r.res.Nontriv = r.w.totalRej > 0 || r.w.totalPerm > 0 || r.w.warped > 0
	r.res.Tags["curve"] = cfg.Curve
	r.res.Tags["reject_per_mille"] = fmt.Sprint(cfg.RejectPerMille)
	if cfg.AcceptOneIn > 0 {
		r.res.Tags["reject_per_mille"] = fmt.Sprintf("all but 1 in %d", cfg.AcceptOneIn)
		r.res.Probes["tens_of_thousands_of_consecutive_retries"] = 1
	}
	r.res.Tags["invalid_key_wrapped"] = fmt.Sprint(cfg.WrapInvalid)
	r.res.Tags["candidate_mapping"] = fmt.Sprint(cfg.Warp)
	if r.w.warped > 0 {
		r.res.Faults["candidate_mapped_to_range_edge"] = r.w.warped
	}
	b, _ := json.Marshal(map[string]any{"curve": cfg.Curve, "reject_per_mille": cfg.RejectPerMille, "ops": r.log})
	r.res.Sample = b
	return r.res
}

func (r *runState) step(i int, op *Op, fc slip10.Curve, mc *ref.SlipCurve) {
	w := r.w
	w.calls, w.rejects, w.permAt, w.wrapped, w.permFired, w.opIndex = 0, 0, op.PermAt, op.Wrapped, false, i
	mf := &ref.Faults{Reject: w.reject, Permanent: w.permanent}
	mf.Warp = w.warp // the identity unless the run uses the candidate-mapping curve or imported special parents
	var (
		real     *slip10.ExtendedKey
		err      error
		model    *ref.XKey
		kind     ref.ErrKind
		api      string
		parent   = "none"
		hard     bool
		stalled  string
		panicked string
		// inputChanged: what the call did to the caller's seed / path buffer (contents, or the spare capacity behind them)
		inputChanged string
	)
	call := func(f func()) {
		defer func() {
			if p := recover(); p != nil {
				if sp, ok := p.(stallPanic); ok {
					stalled = sp.why
					return
				}
				panicked = fmt.Sprintf("%v\n%s", p, debug.Stack())
			}
		}()
		f()
	}
	if op.Kind == "drop" {
		// the caller lets go of an extended key (not the newest one) and keeps what was derived from it; the garbage
		// collector runs, finalizers run. Nothing a live key reports may change because a parent or a twin is gone.
		if len(r.handles) < 2 {
			return
		}
		h := op.Src % (len(r.handles) - 1)
		r.handles = append(r.handles[:h:h], r.handles[h+1:]...)
		w.ovSrc, w.ovKey = nil, nil // the simulator itself must not keep it alive
		runtime.GC()
		runtime.GC()
		time.Sleep(500 * time.Microsecond) // the finalizer goroutine, if there is anything for it to do
		runtime.Gosched()
		r.res.Probes["extended_key_dropped_and_collected"] = 1
		r.mix("drop;")
		for j, hd := range r.handles {
			if bad := compare(hd.real, hd.model); bad != "" {
				r.violate("model-divergence:earlier-key-changed", fmt.Sprintf("op %d on %s: after an extended key was dropped and the garbage collector had run, %s of extended key #%d no longer matches the specification (now %s, specification %s)", i, r.cfg.Curve, bad, j, describeReal(hd.real), describeModel(hd.model)), map[string]any{"curve": r.cfg.Curve, "api": "drop"})
				return
			}
		}
		r.log = append(r.log, fmt.Sprintf("Drop(#%d) and collect", h))
		return
	}
	var src *handle
	if op.Kind == "child" || op.Kind == "public" {
		if len(r.handles) == 0 {
			return
		}
		if op.Src < 0 {
			src = &r.handles[len(r.handles)-1] // the most recently added extended key
		} else {
			src = &r.handles[op.Src%len(r.handles)]
		}
		parent = "public"
		if src.model.Private {
			parent = "private"
		}
	}
	switch op.Kind {
	case "master":
		api = "NewMasterKey"
		seed, _ := hex.DecodeString(op.SeedHex)
		model, kind = ref.Master(mc, seed, mf)
		// the seed (and below, the path) belongs to the caller, who reuses the buffer as soon as the call has returned
		mine, seedIntact := lend(seed, i)
		w.specCalls, w.extraSteps = mf.Calls(), 0
		call(func() { real, err = slip10.NewMasterKey(mine, fc) })
		inputChanged = seedIntact()
		scramble(mine[:cap(mine)])
	case "path":
		api = "DeriveKeyFromPath"
		seed, _ := hex.DecodeString(op.SeedHex)
		model, kind = ref.Master(mc, seed, mf)
		for _, ix := range op.Path {
			if kind != ref.OK {
				break
			}
			parent, hard = "private", ix >= 1<<31
			model, kind = model.Child(ix, mf)
		}
		mine, seedIntact := lend(seed, i)
		pathBuf := make([]uint32, len(op.Path)+(i*7)%5)
		for j := range pathBuf {
			pathBuf[j] = 0xa5a5a5a5 + uint32(j)
		}
		minePath := pathBuf[:copy(pathBuf, op.Path)]
		w.specCalls, w.extraSteps = mf.Calls(), 0
		if kind != ref.OK && kind != ref.ErrPermanent {
			w.extraSteps = len(op.Path) + 1
		}
		call(func() { real, err = slip10.DeriveKeyFromPath(mine, fc, minePath) })
		inputChanged = seedIntact()
		for j := range pathBuf {
			want := 0xa5a5a5a5 + uint32(j)
			if j < len(op.Path) {
				want = op.Path[j]
			}
			if pathBuf[j] != want && inputChanged == "" {
				inputChanged = fmt.Sprintf("entry %d of the caller's path buffer (length %d, capacity %d) was changed from %#x to %#x", j, len(op.Path), len(pathBuf), want, pathBuf[j])
			}
			pathBuf[j] = ^pathBuf[j]
		}
		scramble(mine[:cap(mine)])
		if len(op.Path) > 200 {
			r.res.Probes["path_deeper_than_255"] = 1
		}
	case "child":
		api = "DeriveChild"
		hard = op.Index >= 1<<31
		model, kind = src.model.Child(op.Index, mf)
		w.specCalls, w.extraSteps = mf.Calls(), 0
		if kind != ref.OK && kind != ref.ErrPermanent {
			w.extraSteps = 1
		}
		var ovModel *ref.XKey
		var ovKind ref.ErrKind
		w.ovArmed, w.ovRan = false, false
		if op.OverlapAt > 0 && (src.model.Private || r.cfg.Curve != "ed25519") {
			// the other caller's index: a derivation the specification defines for this parent
			ix := op.OverlapIndex
			switch {
			case !src.model.Private:
				ix &^= 1 << 31
			case r.cfg.Curve == "ed25519":
				ix |= 1 << 31
			}
			if w.ovPublic = op.OverlapWhat == "public"; w.ovPublic {
				ovModel, ovKind = src.model.Neuter(), ref.OK
			} else {
				ovModel, ovKind = src.model.Child(ix, &ref.Faults{Reject: w.reject, Warp: w.warp})
			}
			w.ovArmed, w.ovAt, w.ovCount, w.ovSrc, w.ovIndex, w.ovRan, w.ovKey, w.ovErr, w.ovPanic = true, op.OverlapAt, 0, src.real, ix, false, nil, nil, ""
		}
		call(func() { real, err = src.real.DeriveChild(op.Index) })
		w.ovArmed = false
		if w.ovRan {
			r.res.Probes["derivation_overlapped_by_another_of_the_same_parent"] = 1
			osig := map[string]any{"curve": r.cfg.Curve, "api": "DeriveChild(overlapping)", "parent": parent, "hardened": w.ovIndex >= 1<<31}
			if w.ovPublic {
				r.res.Probes["public_taken_while_deriving_from_the_same_key"] = 1
			}
			owhere := fmt.Sprintf("op %d on %s: DeriveChild(#%d, %d) (or Public() and Fingerprint(), if so configured) made by another caller while DeriveChild(#%d, %d) of the same extended key was at its call %d into the pluggable key", i, r.cfg.Curve, srcIndex(op.Src, len(r.handles)), w.ovIndex, srcIndex(op.Src, len(r.handles)), op.Index, op.OverlapAt)
			switch {
			case w.ovPanic != "":
				r.violate("panic:overlapping-derivation", owhere+": "+w.ovPanic, osig)
				return
			case ovKind == ref.OK && (w.ovErr != nil || w.ovKey == nil):
				r.violate("unexpected-error", fmt.Sprintf("%s: returned error %v, the specification defines a key", owhere, w.ovErr), osig)
				return
			case ovKind == ref.OK && ovModel != nil:
				if bad := compare(w.ovKey, ovModel); bad != "" {
					r.violate("model-divergence:"+bad, fmt.Sprintf("%s: %s differs from the specification (implementation %s, reference %s)", owhere, bad, describeReal(w.ovKey), describeModel(ovModel)), osig)
					return
				}
			}
		}
	case "import":
		// an extended PUBLIC key built by the caller from a point and a chain code (the fields of ExtendedKey are
		// exported): the parent is chosen as Q - s*G for a special point Q (x = 0), and the pluggable curve uses the
		// shift s for this parent, so the public child is exactly Q
		api = "import"
		if mc.EC == nil || len(mc.EC.ZeroXPoints()) == 0 {
			return
		}
		zs := mc.EC.ZeroXPoints()
		q := zs[int(op.Index)%len(zs)]
		sBytes := kernelBytes(r.cfg.PlanSeed, uint64(i))
		sInt := new(big.Int).SetBytes(sBytes)
		sInt.Mod(sInt, mc.EC.N)
		if sInt.Sign() == 0 {
			sInt.SetInt64(1)
		}
		parentPub, ok := mc.EC.SubScalarBase(q, sInt)
		if !ok {
			return
		}
		x, y, _ := mc.EC.Decompress(parentPub)
		cc, _ := hex.DecodeString(op.SeedHex)
		cc = append(cc, make([]byte, 32)...)[:32]
		w.constShift[string(parentPub)] = sInt.FillBytes(make([]byte, 32))
		model, kind = &ref.XKey{Curve: mc, Private: false, Key: parentPub, ChainCode: cc}, ref.OK
		var imported slip10.Key = &elliptic.PublicKey{X: x, Y: y, Curve: stdCurve(r.cfg.Curve)}
		if !r.cfg.Bare {
			imported = &faultKey{w: w, inner: imported}
		}
		real = &slip10.ExtendedKey{ChainCode: append([]byte{}, cc...), Key: imported}
		r.res.Probes["imported_parent_of_special_point"] = 1
	case "public":
		api = "Public"
		model, kind = src.model.Neuter(), ref.OK
		call(func() { real = src.real.Public() })
	default:
		return
	}
	desc := fmt.Sprintf("%s(%s", api, op.Kind)
	switch op.Kind {
	case "child":
		desc = fmt.Sprintf("DeriveChild(#%d,%s,%d", srcIndex(op.Src, len(r.handles)), parent, op.Index)
	case "path":
		desc = fmt.Sprintf("DeriveKeyFromPath(seed %dB,%v", len(op.SeedHex)/2, op.Path)
	case "master":
		desc = fmt.Sprintf("NewMasterKey(seed %dB", len(op.SeedHex)/2)
	case "import":
		desc = "ImportPublic(parent of a point with x = 0"
	case "public":
		desc = fmt.Sprintf("Public(#%d", srcIndex(op.Src, len(r.handles)))
	}
	if op.PermAt > 0 {
		desc += fmt.Sprintf(",permanent 1/%d", op.PermAt)
	}
	desc += fmt.Sprintf(") retries=%d", w.rejects)
	sig := map[string]any{"curve": r.cfg.Curve, "api": api, "parent": parent, "hardened": hard}
	where := fmt.Sprintf("op %d %s on %s (reject %d/1000)", i, desc, r.cfg.Curve, r.cfg.RejectPerMille)
	r.mix(fmt.Sprintf("%s/%d/%d/%d;", op.Kind, kind, w.rejects, op.PermAt))

	if inputChanged != "" && panicked == "" && stalled == "" {
		r.violate("caller-input-modified", where+": "+inputChanged+" - the seed and the path are the caller's, handed over to be read", sig)
		return
	}
	switch {
	case panicked != "":
		first := panicked
		if j := strings.IndexByte(first, '\n'); j > 0 {
			first = first[:j]
		}
		r.violate("panic:"+first, where+": "+panicked, sig)
		return
	case stalled != "":
		if w.permFired {
			r.violate("permanent-error-retried", where+": "+stalled+" (a curve error other than invalid-key must be returned to the caller, not retried)", sig)
		} else {
			r.violate("retry-does-not-terminate", where+": "+stalled, sig)
		}
		return
	}
	switch kind {
	case ref.OK:
		if err != nil {
			r.violate("unexpected-error", fmt.Sprintf("%s: returned error %q, the specification defines a key", where, err), sig)
			return
		}
		if real == nil {
			r.violate("unexpected-error", where+": returned neither key nor error", sig)
			return
		}
		switch op.Observe {
		case "neuter-first":
			r.res.Probes["observed_public_before_any_accessor"] = 1
			var pub *slip10.ExtendedKey
			call(func() { pub = real.Public() })
			if panicked != "" || pub == nil {
				r.violate("panic:Public", where+": Public() of the returned key: "+panicked, sig)
				return
			}
			if bad := compare(pub, model.Neuter()); bad != "" {
				r.violate("model-divergence:"+bad, fmt.Sprintf("%s: Public() of the returned key, taken before any other accessor of that key was called: %s differs from the specification (implementation %s, reference %s)", where, bad, describeReal(pub), describeModel(model.Neuter())), sig)
				return
			}
		case "lazy":
			r.res.Probes["observed_lazily"] = 1
		}
		if bad := compareMode(real, model, op.Observe == "lazy"); bad != "" {
			r.violate("model-divergence:"+bad, fmt.Sprintf("%s: %s differs from the specification (implementation %s, reference %s)", where, bad, describeReal(real), describeModel(model)), sig)
			return
		}
		if !r.cfg.Bare && op.Kind != "public" && w.calls < mf.Calls() {
			// fewer collaborator calls than the specification's retry chain has steps cannot produce the specified key;
			// more are allowed (an implementation may validate a candidate twice)
			r.violate("model-divergence:retry-count", fmt.Sprintf("%s: implementation asked the curve %d times, the specification's retry chain has %d steps", where, w.calls, mf.Calls()), sig)
			return
		}
		if w.rejects > 0 {
			r.res.Probes["retry_"+op.Kind] = 1
			if parent == "public" {
				r.res.Probes["retry_child_public"] = 1
			}
		}
		r.handles = append(r.handles, handle{real, model})
		desc += " ok"
	case ref.ErrPermanent:
		r.res.Probes["permanent_"+op.Kind] = 1
		if w.rejects > 0 {
			r.res.Probes["permanent_after_retries"] = 1
		}
		switch {
		case err == nil:
			r.violate("permanent-error-lost", where+": the curve reported a permanent error but the call returned no error", sig)
		case !errors.Is(err, errInjected):
			r.violate("permanent-error-lost", fmt.Sprintf("%s: the returned error %q does not wrap the curve's permanent error", where, err), sig)
		case real != nil:
			r.violate("permanent-error-lost", where+": a key was returned together with the error", sig)
		}
		desc += " -> permanent error"
	default:
		r.res.Probes["undefined_derivation"] = 1
		usig := map[string]any{"curve": r.cfg.Curve, "parent": parent, "hardened": hard}
		if err == nil {
			r.violate("undefined-derivation-succeeded", fmt.Sprintf("%s: SLIP-0010 does not define this derivation (%v) but a key was returned", where, kindName(kind)), usig)
		} else if real != nil {
			r.violate("undefined-derivation-succeeded", where+": a key was returned together with the error", usig)
		}
		desc += " -> " + kindName(kind)
	}
	r.log = append(r.log, desc)
	// no operation may change an existing extended key: key bytes and chain code of all of them are compared again, and
	// one of them (rotating) in full, including its serialized public key and its fingerprint
	if n := len(r.handles); n > 0 {
		h := r.handles[i%n]
		if bad := compare(h.real, h.model); bad != "" {
			r.violate("model-divergence:earlier-key-changed", fmt.Sprintf("%s: %s of extended key #%d no longer matches the specification (now %s, specification %s)", where, bad, i%n, describeReal(h.real), describeModel(h.model)), sig)
			return
		}
	}
	// the extended key the operation started from, in full as well: deriving from a key (or from its public twin) must
	// not change what the key itself, its public key or its fingerprint are
	if src != nil && op.Observe != "lazy" {
		if bad := compare(src.real, src.model); bad != "" {
			r.violate("model-divergence:earlier-key-changed", fmt.Sprintf("%s: %s of the extended key the operation was applied to no longer matches the specification (now %s, specification %s)", where, bad, describeReal(src.real), describeModel(src.model)), sig)
			return
		}
	}
	for j, h := range r.handles {
		useSpare(h.real.Key.Bytes())
		useSpare(h.real.ChainCode)
		if !bytes.Equal(h.real.Key.Bytes(), h.model.Key) || !bytes.Equal(h.real.ChainCode, h.model.ChainCode) {
			r.violate("model-divergence:receiver-mutated", fmt.Sprintf("%s: extended key #%d changed (now %s, specification %s)", where, j, describeReal(h.real), describeModel(h.model)), sig)
			return
		}
	}
}

// lend gives the package the caller's seed the way callers hold seeds: as the first len(seed) bytes of a larger buffer
// now and then (a 64-byte BIP-39 seed of which 16..32 bytes are used, a field of a record), i.e. with spare capacity
// behind it. intact reports what the call changed in that buffer - the seed itself or the bytes behind it.
func lend(seed []byte, salt int) (mine []byte, intact func() string) {
	spare := [...]int{0, 0, 64, 1, 32, 100, 0, 64 - len(seed)%64}[(salt+len(seed))%8]
	buf := make([]byte, len(seed)+spare)
	copy(buf, seed)
	for j := len(seed); j < len(buf); j++ {
		buf[j] = 0xc3 ^ byte(j)
	}
	return buf[:len(seed)], func() string {
		for j := range buf {
			want := 0xc3 ^ byte(j)
			if j < len(seed) {
				want = seed[j]
			}
			if buf[j] != want {
				return fmt.Sprintf("byte %d of the caller's seed buffer (length %d, capacity %d) was changed from %#02x to %#02x", j, len(seed), len(buf), want, buf[j])
			}
		}
		return ""
	}
}

// useSpare overwrites the spare capacity behind b, as an append within capacity would.
func useSpare(b []byte) {
	sp := b[len(b):cap(b)]
	for i := range sp {
		sp[i] = ^sp[i] + byte(3*i+1)
	}
}

func scramble(b []byte) {
	for i := range b {
		b[i] = ^b[i] + byte(i)
	}
}

func srcIndex(src, n int) int {
	if src < 0 {
		return n - 1
	}
	return src % n
}

func kernelBytes(seed, i uint64) []byte {
	out := make([]byte, 32)
	h := kernel.Mix(seed, 31337, i)
	for j := 0; j < 32; j += 8 {
		h = kernel.SplitMix64(h)
		for b := 0; b < 8; b++ {
			out[j+b] = byte(h >> (8 * uint(b)))
		}
	}
	return out
}

// stdCurve returns the crypto/elliptic curve behind the repository's curve of that name (needed to build a public key
// from coordinates).
func stdCurve(name string) stdelliptic.Curve {
	if name == "nist256p1" {
		return stdelliptic.P256()
	}
	return nil
}

func kindName(k ref.ErrKind) string {
	return [...]string{"ok", "permanent error", "hardened child of a public key", "non-hardened child on ed25519"}[k]
}

func compare(real *slip10.ExtendedKey, m *ref.XKey) string { return compareMode(real, m, false) }

// compareMode with shallow set looks at the exported data only (no accessor that could compute and cache something).
func compareMode(real *slip10.ExtendedKey, m *ref.XKey, shallow bool) string {
	// Every slice the package hands out is the caller's to append to: what lies between its length and its capacity is
	// nobody else's memory (a caller building seed||A does append(key.Bytes(), pub...)). The caller of this simulation
	// writes into that spare capacity before it looks at anything, every time.
	useSpare(real.Key.Bytes())
	useSpare(real.ChainCode)
	if !shallow {
		useSpare(real.Key.Public().Bytes())
		useSpare(real.Fingerprint())
	}
	switch {
	case real.IsPrivate() != m.Private:
		return "private-flag"
	case !bytes.Equal(real.Key.Bytes(), m.Key):
		return "key"
	case !bytes.Equal(real.ChainCode, m.ChainCode):
		return "chain-code"
	case shallow:
		return ""
	case !bytes.Equal(real.Key.Public().Bytes(), m.Public()):
		return "public-key"
	case !bytes.Equal(real.Fingerprint(), m.Fingerprint()):
		return "fingerprint"
	}
	return ""
}

func describeReal(k *slip10.ExtendedKey) string {
	return fmt.Sprintf("{key %x chain %x pub %x fp %x}", k.Key.Bytes(), k.ChainCode, k.Key.Public().Bytes(), k.Fingerprint())
}
func describeModel(k *ref.XKey) string {
	return fmt.Sprintf("{key %x chain %x pub %x fp %x}", k.Key, k.ChainCode, k.Public(), k.Fingerprint())
}

// Gen draws the configuration of run seed.
func Gen(seed uint64, tier string) *Config {
	r := kernel.NewRand(seed)
	c := &Config{Prop: "C02", Curve: pickS(r, "secp256k1", "nist256p1", "ed25519", "ed25519"), PlanSeed: r.Uint64(), RejectPerMille: pickI(r, 0, 500, 500, 900, 990)}
	if r.IntN(8) == 0 {
		c.RejectPerMille = 0 // fault-free configuration, judged by the same oracle
	}
	c.WrapInvalid = r.IntN(4) == 0
	c.Warp = c.Curve != "ed25519" && r.IntN(3) == 0
	maxOps := 8
	if c.Curve == "ed25519" {
		maxOps = 14
	}
	n := 3 + r.IntN(maxOps)
	genSeed := func() string {
		var l int
		switch x := r.IntN(10); {
		case x < 1:
			l = 0
		case x < 7:
			l = pickI(r, 16, 32, 64)
		case x < 9:
			l = 1 + r.IntN(64)
		default:
			l = 65 + r.IntN(300)
		}
		b := make([]byte, l)
		for i := range b {
			b[i] = byte(r.Uint32())
		}
		return hex.EncodeToString(b)
	}
	genIndex := func() uint32 {
		hardBias := c.Curve == "ed25519"
		var ix uint32
		switch x := r.IntN(10); {
		case x < 3:
			ix = pickU(r, 0, 1, 1<<31-1, 1<<31, 1<<31+1, 1<<32-1)
			if hardBias && r.IntN(3) != 0 {
				ix |= 1 << 31
			}
		default:
			ix = r.Uint32()
			if hardBias && r.IntN(12) != 0 {
				ix |= 1 << 31
			}
		}
		return ix
	}
	perm := func() (int, bool) {
		if r.IntN(5) == 0 {
			return 1 + r.IntN(8), r.IntN(3) == 0
		}
		return 0, false
	}
	var paths []Op
	op := Op{Kind: "master", SeedHex: genSeed()}
	op.PermAt, op.Wrapped = perm()
	c.Ops = append(c.Ops, op)
	if op.PermAt > 0 {
		c.Ops = append(c.Ops, Op{Kind: "master", SeedHex: genSeed()})
	}
	for len(c.Ops) < n {
		var o Op
		switch x := r.IntN(100); {
		case x < 60:
			o = Op{Kind: "child", Src: r.IntN(16), Index: genIndex()}
			if r.IntN(8) == 0 {
				o.OverlapAt, o.OverlapIndex, o.OverlapWhat = 1+r.IntN(3), genIndex(), pickS(r, "", "", "public")
			}
		case x < 63 && c.Curve == "nist256p1":
			// an imported public parent whose next non-hardened child is a point with x = 0, and that child right away
			o = Op{Kind: "import", Index: uint32(r.IntN(2)), SeedHex: genSeed()}
			c.Ops = append(c.Ops, o)
			o = Op{Kind: "child", Src: -1, Index: r.Uint32() &^ (1 << 31)}
		case x < 70:
			o = Op{Kind: "public", Src: r.IntN(16)}
		case x < 72:
			o = Op{Kind: "drop", Src: r.IntN(16)}
		case x < 90:
			o = Op{Kind: "path", SeedHex: genSeed()}
			depth := r.IntN(5)
			if r.IntN(10) == 0 {
				depth = 5 + r.IntN(6)
			}
			if r.IntN(120) == 0 { // now and then a very deep path: beyond what a one-byte depth counter holds
				if c.Curve == "ed25519" {
					depth = 254 + r.IntN(5)
				} else {
					depth = 30 + r.IntN(12)
				}
			}
			for i := depth; i > 0; i-- {
				o.Path = append(o.Path, genIndex())
				if depth > 200 {
					o.Path[len(o.Path)-1] |= 1 << 31 // a defined derivation all the way down
				}
			}
			// wallets derive many sibling keys in a row: often repeat an earlier seed and path prefix with another last
			// index (or exactly the same path again)
			if len(paths) > 0 && r.IntN(2) == 0 {
				prev := paths[r.IntN(len(paths))]
				o.SeedHex, o.Path = prev.SeedHex, append([]uint32{}, prev.Path...)
				if len(o.Path) > 0 && r.IntN(4) != 0 {
					o.Path[len(o.Path)-1] = genIndex()
				}
			}
			paths = append(paths, o)
		default:
			o = Op{Kind: "master", SeedHex: genSeed()}
		}
		if o.Kind != "public" {
			o.PermAt, o.Wrapped = perm()
		}
		c.Ops = append(c.Ops, o)
	}
	for i := range c.Ops {
		c.Ops[i].Observe = pickS(r, "", "", "neuter-first", "lazy", "lazy")
	}
	if c.RejectPerMille == 0 && r.IntN(2) == 0 {
		c.Bare, c.Warp, c.WrapInvalid = true, false, false
		var ops []Op
		for _, o := range c.Ops {
			o.PermAt, o.OverlapAt = 0, 0
			if o.Kind != "import" {
				ops = append(ops, o)
			}
		}
		c.Ops = ops
		return c
	}
	if x := r.IntN(1500); x < 11 {
		// a curve that accepts hardly anything: 10 000 or (rarely) 100 000 candidates per key on average
		c.AcceptOneIn, c.Warp = 10000, false
		keep := 2 + r.IntN(4)
		if x == 0 {
			c.AcceptOneIn, keep = 100000, 2
		}
		var ops []Op
		for _, o := range c.Ops {
			if len(o.Path) > 3 {
				o.Path = o.Path[:3]
			}
			o.PermAt, o.OverlapAt = 0, 0
			if len(ops) < keep && o.Kind != "import" {
				ops = append(ops, o)
			}
		}
		c.Ops = ops
	}
	return c
}

func pickS(r *rand.Rand, xs ...string) string { return xs[r.IntN(len(xs))] }
func pickI(r *rand.Rand, xs ...int) int       { return xs[r.IntN(len(xs))] }
func pickU(r *rand.Rand, xs ...uint32) uint32 { return xs[r.IntN(len(xs))] }
