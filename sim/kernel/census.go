package kernel

import (
	"runtime"
	"sort"
	"strings"
)

// Census lists the goroutines of the current synctest bubble (other than the caller):
// id -> stack text. It uses runtime.Stack(all), which stops the world and is consistent,
// unlike runtime.NumGoroutine.
func Census() map[string]string {
	buf := make([]byte, 1<<16)
	for {
		n := runtime.Stack(buf, true)
		if n < len(buf) {
			buf = buf[:n]
			break
		}
		buf = make([]byte, 2*len(buf))
	}
	out := map[string]string{}
	blocks := strings.Split(string(buf), "\n\n")
	for i, b := range blocks {
		if i == 0 {
			continue // the calling goroutine is always first
		}
		nl := strings.IndexByte(b, '\n')
		head := b
		if nl >= 0 {
			head = b[:nl]
		}
		if !strings.HasPrefix(head, "goroutine ") || !strings.Contains(head, "synctest bubble") {
			continue
		}
		f := strings.Fields(head)
		out[f[1]] = b
	}
	return out
}

// Extra returns the stacks of goroutines present in after but not in before, sorted by id.
func Extra(before, after map[string]string) []string {
	var ids []string
	for id := range after {
		if _, ok := before[id]; !ok {
			ids = append(ids, id)
		}
	}
	sort.Strings(ids)
	var res []string
	for _, id := range ids {
		res = append(res, after[id])
	}
	return res
}
