package kernel

import (
	"runtime"
	"sync"
	"sync/atomic"
)

// Goroutine identities for the auto-instrumented build flavour. Hand-placed hooks pass the actor id
// explicitly; the automatically inserted yields do not know it and look the calling goroutine up here.
// Used in plain (non-race) builds only.

var (
	goidMu   sync.Mutex
	goidWho  = map[uint64]int{}
	autoMode bool
	spawnSeq int
	// several concurrent calls in one run (crowd runs): which call a goroutine belongs to, inherited through Spawn/Bind
	callOf    = map[uint64]int{}
	spawnCall = map[int]int{}
)

// Progress is incremented by the scheduler and by every yield; a watchdog outside the bubble uses it to
// tell a stalled run (an actor spinning or blocked on a mutex while its peer is parked) from a slow one.
var Progress atomic.Uint64

// LockWaitSite is the yield site of an actor waiting for a mutex in the auto-instrumented build.
const LockWaitSite = "auto:lockwait"

// IsWaitSite reports whether an actor parked at site is waiting for a lock or a channel (auto-instrumented build): it
// stays enabled, and when picked it merely tries again.
func IsWaitSite(site string) bool {
	return site == LockWaitSite || site == "auto:chanwait" || site == "auto:selectwait"
}

// LockAcquire replaces mu.Lock() in the auto-instrumented build: waiting for the lock is a sequence of yields, so
// the waiter is parked like any other actor (and picked again later) instead of blocking inside sync.Mutex, which
// synctest does not recognise as blocked.
func LockAcquire(try func() bool) {
	for !try() {
		AutoYield(LockWaitSite)
	}
}

// EnableAuto switches goroutine-identity tracking on for the current run and forgets earlier bindings.
func EnableAuto() {
	goidMu.Lock()
	autoMode = true
	goidWho = map[uint64]int{}
	callOf = map[uint64]int{}
	spawnCall = map[int]int{}
	spawnSeq = 0
	goidMu.Unlock()
}

func curGoid() uint64 {
	var buf [64]byte
	n := runtime.Stack(buf[:], false)
	// "goroutine 123 ["
	var id uint64
	for _, c := range buf[10:n] {
		if c < '0' || c > '9' {
			break
		}
		id = id*10 + uint64(c-'0')
	}
	return id
}

// CallStride separates the actor ids of concurrent calls: actor who of call c is scheduled as c*CallStride + who.
const CallStride = 1000

// BindCall says that the calling goroutine (and everything it spawns) belongs to call c of a crowd run.
func BindCall(c int) {
	g := curGoid()
	goidMu.Lock()
	callOf[g] = c
	goidMu.Unlock()
}

// bindExplicit records the explicit actor id of the calling goroutine and returns it shifted into its call's range.
func bindExplicit(who int) int {
	if !autoMode {
		return who
	}
	g := curGoid()
	goidMu.Lock()
	who += callOf[g] * CallStride
	goidWho[g] = who
	goidMu.Unlock()
	return who
}

// Spawn is called by the goroutine that is about to execute a go statement; it returns the provisional
// identity of the new goroutine. Exactly one actor runs at a time, so the sequence is deterministic.
func Spawn() int {
	g := curGoid()
	goidMu.Lock()
	spawnSeq++
	id := 1000000 + spawnSeq
	spawnCall[id] = callOf[g]
	goidMu.Unlock()
	return id
}

// Bind is the first thing a spawned goroutine does in the instrumented build.
func Bind(id int) {
	g := curGoid()
	goidMu.Lock()
	if _, ok := goidWho[g]; !ok {
		goidWho[g] = id
	}
	if c, ok := spawnCall[id]; ok {
		callOf[g] = c
	}
	goidMu.Unlock()
}

// AutoYield is the body of an automatically inserted yield.
func AutoYield(site string) {
	g := curGoid()
	goidMu.Lock()
	who, ok := goidWho[g]
	goidMu.Unlock()
	if !ok {
		return // a goroutine the simulator knows nothing about: do not schedule it
	}
	yieldAs(site, who)
}

// Seeded select: the order in which the cases of a rewritten select are polled is a permutation derived from the run's
// select seed and a counter (the k-th select poll of the run), so it is a pure function of the execution.
var (
	selectSeed  atomic.Uint64
	selectCount atomic.Uint64
)

// SetSelectSeed is called by the world at the start of a run.
func SetSelectSeed(seed uint64) {
	selectSeed.Store(seed)
	selectCount.Store(0)
}

// Perm returns the poll order of a select with n cases.
func Perm(n int) []int {
	k := selectCount.Add(1)
	x := Mix(selectSeed.Load(), 0x5e1ec7, k)
	p := make([]int, n)
	for i := range p {
		p[i] = i
	}
	for i := n - 1; i > 0; i-- {
		x = SplitMix64(x)
		j := int(x % uint64(i+1))
		p[i], p[j] = p[j], p[i]
	}
	return p
}
