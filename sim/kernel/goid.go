package kernel

import (
	"runtime"
	"sync"
	"sync/atomic"
)

// Goroutine identities for the auto-instrumented build flavour. Hand-placed hooks pass the actor id
// explicitly; the automatically inserted yields do not know it and look the calling goroutine up here.

// The tables below are shared by all goroutines of a run. In the race-detector builds nothing the simulator shares may
// be visible to the detector: a mutex would order the actors (and hide races of the code under test), a map would be
// reported itself. So the tables are fixed arrays, touched only by //go:norace functions, under a mutex that is taken
// inside a RaceDisable region (the detector ignores its synchronisation).
const goidTabSize = 1 << 13

type goidEnt struct {
	goid    uint64
	who     int
	call    int
	hasWho  bool
	hasCall bool
}

var (
	goidMu    sync.Mutex
	goidTab   [goidTabSize]goidEnt
	goidUsed  int
	autoMode  bool
	spawnSeq  int
	spawnCall [goidTabSize]int // call of the goroutine that executed the k-th go statement (index k mod size)
)

func goidLock()   { raceDisable(); goidMu.Lock() }
func goidUnlock() { goidMu.Unlock(); raceEnable() }

// goidSlot returns the entry of goroutine g (creating it if asked to); the caller holds goidMu.
//
//go:norace
func goidSlot(g uint64, create bool) *goidEnt {
	i := int(g*0x9E3779B97F4A7C15>>40) & (goidTabSize - 1)
	for n := 0; n < goidTabSize; n++ {
		e := &goidTab[i]
		if e.goid == g {
			return e
		}
		if e.goid == 0 {
			if !create || goidUsed >= goidTabSize/2 {
				return nil
			}
			goidUsed++
			e.goid = g
			return e
		}
		i = (i + 1) & (goidTabSize - 1)
	}
	return nil
}

// Progress is incremented by the scheduler and by every yield; a watchdog outside the bubble uses it to
// tell a stalled run (an actor spinning or blocked on a mutex while its peer is parked) from a slow one.
var Progress atomic.Uint64

// LockWaitSite is the yield site of an actor waiting for a mutex in the auto-instrumented build.
const LockWaitSite = "auto:lockwait"

// IsWaitSite reports whether an actor parked at site is waiting for a lock or a channel (auto-instrumented build): it
// stays enabled, and when picked it merely tries again.
func IsWaitSite(site string) bool {
	return site == LockWaitSite || site == "auto:chanwait" || site == "auto:selectwait"
}

// LockAcquire replaces mu.Lock() in the auto-instrumented build: waiting for the lock is a sequence of yields, so
// the waiter is parked like any other actor (and picked again later) instead of blocking inside sync.Mutex, which
// synctest does not recognise as blocked.
func LockAcquire(try func() bool) {
	for !try() {
		AutoYield(LockWaitSite)
	}
}

// EnableAuto switches goroutine-identity tracking on for the current run and forgets earlier bindings.
//
//go:norace
func EnableAuto() {
	goidLock()
	autoMode = true
	goidTab = [goidTabSize]goidEnt{}
	goidUsed = 0
	spawnSeq = 0
	goidUnlock()
}

func curGoid() uint64 {
	var buf [64]byte
	n := runtime.Stack(buf[:], false)
	// "goroutine 123 ["
	var id uint64
	for _, c := range buf[10:n] {
		if c < '0' || c > '9' {
			break
		}
		id = id*10 + uint64(c-'0')
	}
	return id
}

// CallStride separates the actor ids of concurrent calls: actor who of call c is scheduled as c*CallStride + who.
const CallStride = 1000

// BindCall says that the calling goroutine (and everything it spawns) belongs to call c of a crowd run.
//
//go:norace
func BindCall(c int) {
	g := curGoid()
	goidLock()
	if e := goidSlot(g, true); e != nil {
		e.call, e.hasCall = c, true
	}
	goidUnlock()
}

// CurrentCall returns the call of a crowd run the calling goroutine belongs to (0 outside crowd runs).
//
//go:norace
func CurrentCall() int {
	g := curGoid()
	c := 0
	goidLock()
	if e := goidSlot(g, false); e != nil {
		c = e.call
	}
	goidUnlock()
	return c
}

// bindExplicit records the explicit actor id of the calling goroutine and returns it shifted into its call's range.
//
//go:norace
func bindExplicit(who int) int {
	if !autoMode {
		return who
	}
	g := curGoid()
	goidLock()
	if e := goidSlot(g, true); e != nil {
		who += e.call * CallStride
		e.who, e.hasWho = who, true
	}
	goidUnlock()
	return who
}

// Spawn is called by the goroutine that is about to execute a go statement; it returns the provisional
// identity of the new goroutine. Exactly one actor runs at a time, so the sequence is deterministic.
//
//go:norace
func Spawn() int {
	g := curGoid()
	goidLock()
	spawnSeq++
	id := 1000000 + spawnSeq
	c := 0
	if e := goidSlot(g, false); e != nil {
		c = e.call
	}
	spawnCall[spawnSeq&(goidTabSize-1)] = c
	goidUnlock()
	return id
}

// Bind is the first thing a spawned goroutine does in the instrumented build.
//
//go:norace
func Bind(id int) {
	g := curGoid()
	goidLock()
	if e := goidSlot(g, true); e != nil {
		if !e.hasWho {
			e.who, e.hasWho = id, true
		}
		if k := id - 1000000; k > 0 && k <= spawnSeq {
			e.call, e.hasCall = spawnCall[k&(goidTabSize-1)], true
		}
	}
	goidUnlock()
}

// AutoYield is the body of an automatically inserted yield.
//
//go:norace
func AutoYield(site string) {
	g := curGoid()
	goidLock()
	who, ok := 0, false
	if e := goidSlot(g, false); e != nil {
		who, ok = e.who, e.hasWho
	}
	goidUnlock()
	if !ok {
		return // a goroutine the simulator knows nothing about: do not schedule it
	}
	yieldAs(site, who)
}

// Seeded select: the order in which the cases of a rewritten select are polled is a permutation derived from the run's
// select seed and a counter (the k-th select poll of the run), so it is a pure function of the execution.
var (
	selectSeed  atomic.Uint64
	selectCount atomic.Uint64
)

// SetSelectSeed is called by the world at the start of a run.
func SetSelectSeed(seed uint64) {
	selectSeed.Store(seed)
	selectCount.Store(0)
}

// Perm returns the poll order of a select with n cases.
func Perm(n int) []int {
	var k, seed uint64
	Hidden(func() { k, seed = selectCount.Add(1), selectSeed.Load() }) // invisible to the race detector
	x := Mix(seed, 0x5e1ec7, k)
	p := make([]int, n)
	for i := range p {
		p[i] = i
	}
	for i := n - 1; i > 0; i-- {
		x = SplitMix64(x)
		j := int(x % uint64(i+1))
		p[i], p[j] = p[j], p[i]
	}
	return p
}
