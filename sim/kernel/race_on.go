//go:build race

package kernel

import "runtime"

// RaceBuild reports whether the binary was built with the race detector.
const RaceBuild = true

func raceDisable() { runtime.RaceDisable() }
func raceEnable()  { runtime.RaceEnable() }
