package kernel

import (
	"fmt"
	"math/rand/v2"
)

// Strategy picks the index of the next action among en (sorted by Who, never empty).
type Strategy interface {
	Pick(step int, en []Enabled, last int, _ *struct{}) int
	Name() string
}

// Uniform picks uniformly at random.
type Uniform struct{ R *rand.Rand }

func (u Uniform) Pick(_ int, en []Enabled, _ int, _ *struct{}) int { return u.R.IntN(len(en)) }
func (u Uniform) Name() string                                     { return "uniform" }

// Sticky keeps the running actor with probability Q.
type Sticky struct {
	R *rand.Rand
	Q float64
}

func (s Sticky) Pick(_ int, en []Enabled, last int, _ *struct{}) int {
	for i, e := range en {
		if e.Who == last && s.R.Float64() < s.Q {
			return i
		}
	}
	return s.R.IntN(len(en))
}
func (s Sticky) Name() string { return fmt.Sprintf("sticky(%.2f)", s.Q) }

// RoundRobin picks the enabled actor with the smallest id greater than last, cyclically.
type RoundRobin struct{}

func (RoundRobin) Pick(_ int, en []Enabled, last int, _ *struct{}) int {
	for i, e := range en {
		if e.Who > last {
			return i
		}
	}
	return 0
}
func (RoundRobin) Name() string { return "roundrobin" }

// PCT gives every actor a random static priority and demotes the running actor at D random steps.
type PCT struct {
	R      *rand.Rand
	prio   map[int]float64
	change map[int]bool
	low    float64
	D      int
}

// NewPCT creates a PCT strategy with d priority change points within the first horizon steps.
func NewPCT(r *rand.Rand, d, horizon int) *PCT {
	p := &PCT{R: r, prio: map[int]float64{}, change: map[int]bool{}, D: d}
	for i := 0; i < d; i++ {
		p.change[r.IntN(horizon)] = true
	}
	return p
}

func (p *PCT) Pick(step int, en []Enabled, _ int, _ *struct{}) int {
	best := 0
	for i, e := range en {
		if _, ok := p.prio[e.Who]; !ok {
			p.prio[e.Who] = 1 + p.R.Float64()
		}
		if p.prio[e.Who] > p.prio[en[best].Who] {
			best = i
		}
	}
	if p.change[step] {
		p.low -= 1
		p.prio[en[best].Who] = p.low
		best = 0
		for i, e := range en {
			if p.prio[e.Who] > p.prio[en[best].Who] {
				best = i
			}
		}
	}
	return best
}
func (p *PCT) Name() string { return fmt.Sprintf("pct(%d)", p.D) }

// Starve never picks Victim while another action is enabled, for the first K steps; otherwise uniform.
type Starve struct {
	R      *rand.Rand
	Victim int
	K      int
}

func (s Starve) Pick(step int, en []Enabled, _ int, _ *struct{}) int {
	if step < s.K && len(en) > 1 {
		for {
			i := s.R.IntN(len(en))
			if en[i].Who != s.Victim {
				return i
			}
		}
	}
	return s.R.IntN(len(en))
}
func (s Starve) Name() string { return fmt.Sprintf("starve(%d,%d)", s.Victim, s.K) }

// Favour always picks Fav when it is enabled, for the first K steps; otherwise uniform.
type Favour struct {
	R   *rand.Rand
	Fav int
	K   int
}

func (f Favour) Pick(step int, en []Enabled, _ int, _ *struct{}) int {
	if step < f.K {
		for i, e := range en {
			if e.Who == f.Fav {
				return i
			}
		}
	}
	return f.R.IntN(len(en))
}
func (f Favour) Name() string { return fmt.Sprintf("favour(%d,%d)", f.Fav, f.K) }

// SplitMix64 is the seed-derivation function used everywhere.
func SplitMix64(x uint64) uint64 {
	x += 0x9e3779b97f4a7c15
	x = (x ^ (x >> 30)) * 0xbf58476d1ce4e5b9
	x = (x ^ (x >> 27)) * 0x94d049bb133111eb
	return x ^ (x >> 31)
}

// Mix derives a sub-seed from a seed and a list of integers.
func Mix(seed uint64, vs ...uint64) uint64 {
	x := SplitMix64(seed)
	for _, v := range vs {
		x = SplitMix64(x ^ SplitMix64(v))
	}
	return x
}

// NewRand returns the PRNG of a run: PCG seeded from the run seed only.
func NewRand(seed uint64) *rand.Rand {
	return rand.New(rand.NewPCG(seed, SplitMix64(seed)))
}
