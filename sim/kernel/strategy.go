package kernel

import (
	"fmt"
	"math/rand/v2"
)

// Strategy picks the index of the next action among en (sorted by Who, never empty).
type Strategy interface {
	Pick(step int, en []Enabled, last int, _ *struct{}) int
	Name() string
}

// Uniform picks uniformly at random.
type Uniform struct{ R *rand.Rand }

func (u Uniform) Pick(_ int, en []Enabled, _ int, _ *struct{}) int { return u.R.IntN(len(en)) }
func (u Uniform) Name() string                                     { return "uniform" }

// Sticky keeps the running actor with probability Q.
type Sticky struct {
	R *rand.Rand
	Q float64
}

func (s Sticky) Pick(_ int, en []Enabled, last int, _ *struct{}) int {
	for i, e := range en {
		if e.Who == last && s.R.Float64() < s.Q {
			return i
		}
	}
	return s.R.IntN(len(en))
}
func (s Sticky) Name() string { return fmt.Sprintf("sticky(%.2f)", s.Q) }

// RoundRobin picks the enabled actor with the smallest id greater than last, cyclically.
type RoundRobin struct{}

func (RoundRobin) Pick(_ int, en []Enabled, last int, _ *struct{}) int {
	for i, e := range en {
		if e.Who > last {
			return i
		}
	}
	return 0
}
func (RoundRobin) Name() string { return "roundrobin" }

// PCT gives every actor a random static priority and demotes the running actor at D random steps.
type PCT struct {
	R      *rand.Rand
	prio   map[int]float64
	change map[int]bool
	low    float64
	D      int
}

// NewPCT creates a PCT strategy with d priority change points within the first horizon steps.
func NewPCT(r *rand.Rand, d, horizon int) *PCT {
	p := &PCT{R: r, prio: map[int]float64{}, change: map[int]bool{}, D: d}
	for i := 0; i < d; i++ {
		p.change[r.IntN(horizon)] = true
	}
	return p
}

func (p *PCT) Pick(step int, en []Enabled, _ int, _ *struct{}) int {
	best := 0
	for i, e := range en {
		if _, ok := p.prio[e.Who]; !ok {
			p.prio[e.Who] = 1 + p.R.Float64()
		}
		if p.prio[e.Who] > p.prio[en[best].Who] {
			best = i
		}
	}
	if p.change[step] {
		p.low -= 1
		p.prio[en[best].Who] = p.low
		best = 0
		for i, e := range en {
			if p.prio[e.Who] > p.prio[en[best].Who] {
				best = i
			}
		}
	}
	return best
}
func (p *PCT) Name() string { return fmt.Sprintf("pct(%d)", p.D) }

// Starve never picks Victim while another action is enabled, for the first K steps; otherwise uniform.
type Starve struct {
	R      *rand.Rand
	Victim int
	K      int
}

func (s Starve) Pick(step int, en []Enabled, _ int, _ *struct{}) int {
	if step < s.K && len(en) > 1 {
		for {
			i := s.R.IntN(len(en))
			if en[i].Who != s.Victim {
				return i
			}
		}
	}
	return s.R.IntN(len(en))
}
func (s Starve) Name() string { return fmt.Sprintf("starve(%d,%d)", s.Victim, s.K) }

// Favour always picks Fav when it is enabled, for the first K steps; otherwise uniform.
type Favour struct {
	R   *rand.Rand
	Fav int
	K   int
}

func (f Favour) Pick(step int, en []Enabled, _ int, _ *struct{}) int {
	if step < f.K {
		for i, e := range en {
			if e.Who == f.Fav {
				return i
			}
		}
	}
	return f.R.IntN(len(en))
}
func (f Favour) Name() string { return fmt.Sprintf("favour(%d,%d)", f.Fav, f.K) }

// Teams runs the actors in small teams: one, two or three actors are chosen at random and take turns, one step each,
// for a burst of 4..27 steps; then a new team is chosen. A team of one lets an actor complete a whole multi-step
// sequence undisturbed; a team of two alternates two actors step by step, which interleaves two such sequences
// crosswise (a, b, a, b) — the shape of a torn update — with a probability uniform choice gives only to short ones.
type Teams struct {
	R      *rand.Rand
	team   []int
	left   int
	turn   int
	random bool // this burst: a random member of the team at each step (nested shapes a, b, b, a) instead of strict turns
}

func (t *Teams) Pick(_ int, en []Enabled, _ int, _ *struct{}) int {
	for attempt := 0; attempt < 2; attempt++ {
		if t.left > 0 && t.random {
			var idx []int
			for i, e := range en {
				for _, who := range t.team {
					if e.Who == who {
						idx = append(idx, i)
					}
				}
			}
			if len(idx) > 0 {
				t.left--
				return idx[t.R.IntN(len(idx))]
			}
		}
		if t.left > 0 && !t.random {
			for k := 0; k < len(t.team); k++ {
				who := t.team[(t.turn+k)%len(t.team)]
				for i, e := range en {
					if e.Who == who {
						t.turn = (t.turn + k + 1) % len(t.team)
						t.left--
						return i
					}
				}
			}
		}
		// choose a new team among the enabled actors
		n := 1 + t.R.IntN(3)
		if n > len(en) {
			n = len(en)
		}
		perm := t.R.Perm(len(en))
		t.team = t.team[:0]
		for _, i := range perm[:n] {
			t.team = append(t.team, en[i].Who)
		}
		t.left, t.turn, t.random = 4+t.R.IntN(24), 0, t.R.IntN(2) == 0
	}
	return t.R.IntN(len(en))
}
func (t *Teams) Name() string { return "teams" }

// Align holds every actor that arrives at Site until N of them are parked there (or nothing else can run), and only
// then lets them go, under the Inner strategy: a barrier the simulator places, so that N workers have, say, all found a
// nonce before the first of them publishes it. Left to chance, the first finder's stop flag sends the others home
// before they get there, and everything that needs several simultaneous finders is reached only when the workers
// happen to advance in lockstep.
type Align struct {
	Inner    Strategy
	Site     string
	N        int
	Leader   *rand.Rand // not nil: on release one of the held actors (at random) runs alone for a few steps, then only the others
	released bool
	held     []int
	leader   int
	solo     int
	others   int
}

func (a *Align) Pick(step int, en []Enabled, last int, x *struct{}) int {
	if !a.released {
		var free []int
		held := 0
		for i, e := range en {
			if e.Site == a.Site {
				held++
			} else {
				free = append(free, i)
			}
		}
		if held >= a.N || len(free) == 0 {
			a.released = true
			if a.Leader != nil && held >= 2 {
				for _, e := range en {
					if e.Site == a.Site {
						a.held = append(a.held, e.Who)
					}
				}
				a.leader = a.held[a.Leader.IntN(len(a.held))]
				a.solo, a.others = 3+a.Leader.IntN(8), 6+a.Leader.IntN(30)
			}
		} else {
			sub := make([]Enabled, len(free))
			for j, i := range free {
				sub[j] = en[i]
			}
			return free[a.Inner.Pick(step, sub, last, x)]
		}
	}
	if a.solo > 0 { // the leader alone
		for i, e := range en {
			if e.Who == a.leader {
				a.solo--
				return i
			}
		}
		a.solo = 0
	}
	if a.others > 0 { // then the other actors that were held, in random order, the leader staying where it is
		var idx []int
		for i, e := range en {
			for _, who := range a.held {
				if e.Who == who && who != a.leader {
					idx = append(idx, i)
				}
			}
		}
		if len(idx) > 0 {
			a.others--
			return idx[a.Leader.IntN(len(idx))]
		}
		a.others = 0
	}
	return a.Inner.Pick(step, en, last, x)
}
func (a *Align) Name() string { return fmt.Sprintf("align(%s,%d)+%s", a.Site, a.N, a.Inner.Name()) }

// SplitMix64 is the seed-derivation function used everywhere.
func SplitMix64(x uint64) uint64 {
	x += 0x9e3779b97f4a7c15
	x = (x ^ (x >> 30)) * 0xbf58476d1ce4e5b9
	x = (x ^ (x >> 27)) * 0x94d049bb133111eb
	return x ^ (x >> 31)
}

// Mix derives a sub-seed from a seed and a list of integers.
func Mix(seed uint64, vs ...uint64) uint64 {
	x := SplitMix64(seed)
	for _, v := range vs {
		x = SplitMix64(x ^ SplitMix64(v))
	}
	return x
}

// NewRand returns the PRNG of a run: PCG seeded from the run seed only.
func NewRand(seed uint64) *rand.Rand {
	return rand.New(rand.NewPCG(seed, SplitMix64(seed)))
}
