// Package kernel is the seeded cooperative scheduler of the simulator.
//
// One simulated run lives in one testing/synctest bubble. The bubble's root goroutine owns a
// Sched and is the only goroutine that decides who runs. Every goroutine of the system under
// test ("actor") calls Yield at the hook sites compiled into the repository with the verif
// build tag; Yield registers the actor with the scheduler and parks it on a private channel.
// A step is: wait until the bubble is quiescent (every other goroutine durably blocked or
// gone), collect the registrations, pick one parked actor (PRNG or replay list), release it.
//
// Hand-offs between actors and scheduler are hidden from the race detector
// (runtime.RaceDisable around them) so that the only happens-before edges the detector sees
// are the ones the code under test creates itself.
package kernel

import (
	"fmt"
	"sort"
	"sync/atomic"
	"testing/synctest"
	"time"
)

type reg struct {
	who  int
	site string
	wake chan struct{}
}

// Enabled is one schedulable action: a parked actor or a virtual action of the world.
type Enabled struct {
	Who  int    `json:"who"`
	Site string `json:"site"`
}

// Step is one entry of the recorded schedule.
type Step struct {
	Who  int
	Site string
}

// Sched is the scheduler state of one run. Only the bubble's root goroutine touches it.
type Sched struct {
	regCh   chan reg
	parked  map[int][]reg
	Trace   []Step
	hash    uint64
	strat   Strategy
	replay  []int
	rpos    int
	replayM bool
	last    int
	// Diverged is set when a replay list names an actor that is not enabled.
	Diverged string
	// Switches counts steps whose actor differs from the previous step's actor.
	Switches int
	wrapped  bool
	// Journal, if set, is called with every recorded step before the actor is released.
	Journal func(step int, who int, site string)
}

var cur atomic.Pointer[Sched]

// New creates the scheduler for one run and binds the Yield hook to it.
// If replay is non-nil the run follows it instead of the strategy.
func New(strat Strategy, replay []int, replayMode bool) *Sched {
	s := &Sched{
		regCh:   make(chan reg, 4096),
		parked:  map[int][]reg{},
		hash:    14695981039346656037,
		strat:   strat,
		replay:  replay,
		replayM: replayMode,
		last:    1 << 30,
	}
	cur.Store(s)
	return s
}

// Unbind detaches the Yield hook; later Yield calls return immediately.
func (s *Sched) Unbind() { cur.CompareAndSwap(s, nil) }

// SetStrategy replaces the strategy for the remaining steps.
func (s *Sched) SetStrategy(st Strategy) { s.strat = st }

// Yield is the hook body: park the calling actor until the scheduler releases it.
func Yield(site string, who int) {
	yieldAs(site, bindExplicit(who))
}

func yieldAs(site string, who int) {
	raceDisable()
	Progress.Add(1) // inside the hidden region: an atomic all actors touch must not order them for the race detector
	s := cur.Load()
	if s != nil {
		w := make(chan struct{})
		s.regCh <- reg{who, site, w}
		<-w
	}
	raceEnable()
}

// Quiesce waits until every other goroutine of the bubble is durably blocked and collects
// the registrations that arrived.
func (s *Sched) Quiesce() {
	raceDisable()
	synctest.Wait()
	Progress.Add(1)
	for {
		select {
		case r := <-s.regCh:
			s.parked[r.who] = append(s.parked[r.who], r)
			continue
		default:
		}
		break
	}
	raceEnable()
}

// Parked returns the parked actors sorted by id.
func (s *Sched) Parked() []Enabled {
	en := make([]Enabled, 0, len(s.parked))
	for who, rs := range s.parked {
		site := rs[0].site
		for _, r := range rs[1:] {
			if r.site < site {
				site = r.site
			}
		}
		en = append(en, Enabled{who, site})
	}
	sort.Slice(en, func(i, j int) bool { return en[i].Who < en[j].Who })
	return en
}

// Pick chooses one of en (sorted by Who) and records it. ok is false on replay divergence.
func (s *Sched) Pick(en []Enabled) (Enabled, bool) {
	var idx int
	if s.replayM && s.rpos < len(s.replay) {
		want := s.replay[s.rpos]
		s.rpos++
		idx = -1
		for i, e := range en {
			if e.Who == want {
				idx = i
			}
		}
		if idx < 0 {
			s.Diverged = fmt.Sprintf("step %d: replay wants actor %d, enabled %v", len(s.Trace), want, en)
			return Enabled{}, false
		}
	} else if s.replayM {
		idx = RoundRobin{}.Pick(len(s.Trace), en, s.last, nil)
	} else {
		idx = s.strat.Pick(len(s.Trace), en, s.last, nil)
	}
	return s.record(en[idx]), true
}

// PickForced records e as the next action without consulting the strategy.
func (s *Sched) PickForced(e Enabled) Enabled { return s.record(e) }

// ReplayExhausted reports whether a replay list has been consumed completely.
func (s *Sched) ReplayExhausted() bool { return s.replayM && s.rpos >= len(s.replay) }

// Wrapped reports whether the most recent pick went to an actor id not greater than the previous one
// (one more round of a round-robin order has started).
func (s *Sched) Wrapped() bool { return s.wrapped }

func (s *Sched) record(e Enabled) Enabled {
	s.wrapped = e.Who <= s.last
	if s.Journal != nil {
		s.Journal(len(s.Trace), e.Who, e.Site)
	}
	if e.Who != s.last && len(s.Trace) > 0 {
		s.Switches++
	}
	s.last = e.Who
	s.Trace = append(s.Trace, Step{e.Who, e.Site})
	s.mix(uint64(int64(e.Who)))
	for i := 0; i < len(e.Site); i++ {
		s.mix(uint64(e.Site[i]))
	}
	return e
}

func (s *Sched) mix(v uint64) {
	s.hash ^= v
	s.hash *= 1099511628211
}

// TraceHash is a hash of the (who, site) sequence executed so far.
func (s *Sched) TraceHash() uint64 { return s.hash }

// Last returns the id of the actor picked most recently.
func (s *Sched) Last() int { return s.last }

// Wake releases every goroutine parked under the actor id who.
func (s *Sched) Wake(who int) {
	raceDisable()
	for _, r := range s.parked[who] {
		close(r.wake)
	}
	delete(s.parked, who)
	raceEnable()
}

// Choices returns the recorded schedule as a list of actor ids.
func (s *Sched) Choices() []int {
	c := make([]int, len(s.Trace))
	for i, st := range s.Trace {
		c[i] = st.Who
	}
	return c
}

// Hidden runs f with race-detector synchronisation tracking disabled on the calling goroutine:
// channel operations inside f create no happens-before edges for the detector.
func Hidden(f func()) {
	raceDisable()
	f()
	raceEnable()
}

// HiddenSleep lets the bubble's fake clock advance by d (every other goroutine must be durably blocked).
func HiddenSleep(d time.Duration) {
	raceDisable()
	time.Sleep(d)
	raceEnable()
}
