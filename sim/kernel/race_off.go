//go:build !race

package kernel

// RaceBuild reports whether the binary was built with the race detector.
const RaceBuild = false

func raceDisable() {}
func raceEnable()  {}
