// Package curlsim drives the batched Curl (pkg/curl) through generated histories of Absorb / Squeeze /
// Clone / Reset / CopyState calls and injected caller errors on several live handles, and checks every
// step against 64 independent single-lane reference sponges per handle.
package curlsim

import (
	"encoding/json"
	"errors"
	"fmt"
	"runtime/debug"

	"github.com/iotaledger/iota.go/consts"
	"github.com/iotaledger/iota.go/trinary"
	"github.com/wollac/iota-crypto-demo/pkg/curl"

	"verif/sim/kernel"
	"verif/sim/proto"
	"verif/sim/ref"
)

// Op is one call of a history.
type Op struct {
	Kind    string `json:"kind"` // absorb | squeeze | clone | reset | copystate | bad-absorb | bad-squeeze
	H       int    `json:"h"`    // handle (taken modulo the number of live handles)
	Blocks  int    `json:"blocks,omitempty"`
	Pattern string `json:"pattern,omitempty"` // random | zero | plus | minus | same | onediff
	Seed    uint64 `json:"seed,omitempty"`
	Bad     string `json:"bad,omitempty"` // empty | toomany | length
	M       int    `json:"m,omitempty"`   // reset: batch size of the next history of this handle
}

// Config is one run.
type Config struct {
	Prop string `json:"prop"`
	M    int    `json:"m"` // batch size of the first handle
	Ops  []Op   `json:"ops"`
}

type handle struct {
	real      *curl.Curl
	m         int
	lanes     []ref.Sponge // m single-lane reference sponges
	squeezing bool
}

type runState struct {
	cfg     *Config
	res     proto.End
	handles []*handle
	hash    uint64
	log     []string
	changes int
}

func (r *runState) violate(class, msg string) {
	if r.res.Class == "" {
		r.res.Class, r.res.Message = class, msg
	}
}

func (r *runState) mix(s string) {
	for i := 0; i < len(s); i++ {
		r.hash ^= uint64(s[i])
		r.hash *= 1099511628211
	}
}

func genTrits(pattern string, seed uint64, m, n int) []trinary.Trits {
	rnd := kernel.NewRand(seed)
	out := make([]trinary.Trits, m)
	rt := func() int8 { return int8(rnd.IntN(3)) - 1 }
	switch pattern {
	case "zero", "plus", "minus":
		v := map[string]int8{"zero": 0, "plus": 1, "minus": -1}[pattern]
		for j := range out {
			out[j] = make(trinary.Trits, n)
			for i := range out[j] {
				out[j][i] = v
			}
		}
	case "same", "onediff":
		base := make(trinary.Trits, n)
		for i := range base {
			base[i] = rt()
		}
		for j := range out {
			out[j] = append(trinary.Trits{}, base...)
			if pattern == "onediff" && n > 0 && j > 0 {
				p := rnd.IntN(n)
				out[j][p] = (out[j][p]+2)%3 - 1
			}
		}
	default:
		for j := range out {
			out[j] = make(trinary.Trits, n)
			for i := range out[j] {
				out[j][i] = rt()
			}
		}
	}
	return out
}

func state(c *curl.Curl) (l, h []uint) {
	l, h = make([]uint, curl.StateSize), make([]uint, curl.StateSize)
	c.CopyState(l, h)
	return
}

func mask(m int) uint {
	if m >= 64 {
		return ^uint(0)
	}
	return uint(1)<<uint(m) - 1
}

// checkHandle compares the state of a handle with its model on the supplied lanes.
func (r *runState) checkHandle(idx int, where string) bool {
	hd := r.handles[idx]
	l, h := state(hd.real)
	mk := mask(hd.m)
	for i := 0; i < ref.StateLen; i++ {
		var wl, wh uint = ^uint(0), ^uint(0)
		for j := 0; j < hd.m; j++ {
			switch hd.lanes[j].S[i] {
			case 1:
				wl &^= 1 << uint(j)
			case -1:
				wh &^= 1 << uint(j)
			}
		}
		if (l[i]^wl)&mk != 0 || (h[i]^wh)&mk != 0 {
			lane := 0
			for j := 0; j < hd.m; j++ {
				if ((l[i]^wl)|(h[i]^wh))>>uint(j)&1 == 1 {
					lane = j
					break
				}
			}
			r.violate("model-divergence:state", fmt.Sprintf("%s: state of handle #%d differs from the reference at trit %d of lane %d (batch size %d): planes (l=%d,h=%d), reference trit %d",
				where, idx, i, lane, hd.m, l[i]>>uint(lane)&1, h[i]>>uint(lane)&1, hd.lanes[lane].S[i]))
			return false
		}
	}
	return true
}

// Run executes one configuration.
func Run(cfg *Config) proto.End {
	r := &runState{cfg: cfg, hash: 14695981039346656037}
	r.res.Faults, r.res.Probes, r.res.Tags = map[string]int{}, map[string]int{}, map[string]string{}
	m := cfg.M
	if m < 1 || m > 64 {
		m = 1
	}
	r.handles = []*handle{{real: curl.NewCurlP81(), m: m, lanes: make([]ref.Sponge, m)}}
	for i := range cfg.Ops {
		if r.res.Class != "" {
			break
		}
		func() {
			defer func() {
				if p := recover(); p != nil {
					msg := fmt.Sprintf("%v", p)
					r.violate("panic:"+msg, fmt.Sprintf("op %d %+v: %s\n%s", i, cfg.Ops[i], msg, debug.Stack()))
				}
			}()
			r.step(i, &cfg.Ops[i])
		}()
	}
	r.res.Steps = len(cfg.Ops)
	r.res.TraceHash = fmt.Sprintf("%016x", r.hash)
	r.res.Outcome = "ok"
	if r.res.Class != "" {
		r.res.Outcome = "violation"
		b, _ := json.Marshal(cfg)
		r.res.Config = b
	}
	r.res.Nontriv = r.changes >= 2
	r.res.Tags["handles"] = fmt.Sprint(len(r.handles))
	r.res.Tags["first_batch_size"] = fmt.Sprint(m)
	b, _ := json.Marshal(map[string]any{"batch_size": m, "history": r.log})
	r.res.Sample = b
	return r.res
}

func (r *runState) step(i int, op *Op) {
	idx := ((op.H % len(r.handles)) + len(r.handles)) % len(r.handles)
	hd := r.handles[idx]
	where := fmt.Sprintf("op %d %s on handle #%d", i, op.Kind, idx)
	blocks := op.Blocks
	if blocks < 0 {
		blocks = 0
	}
	n := blocks * ref.HashLen
	desc := fmt.Sprintf("#%d.%s", idx, op.Kind)
	switch op.Kind {
	case "absorb":
		if hd.squeezing {
			return // the sponge discipline forbids it (the call panics by design); not part of the property
		}
		src := genTrits(op.Pattern, op.Seed, hd.m, n)
		if err := hd.real.Absorb(src, n); err != nil {
			r.violate("wrong-error", fmt.Sprintf("%s: valid Absorb of %d lanes x %d trits returned %q", where, hd.m, n, err))
			return
		}
		for j := 0; j < hd.m; j++ {
			hd.lanes[j].Absorb(src[j])
		}
		if n > 0 {
			r.changes++
		}
		if blocks >= 4 {
			r.res.Probes["absorb_blocks_4plus"] = 1
		} else {
			r.res.Probes["absorb_blocks_"+fmt.Sprint(blocks)] = 1
		}
		desc += fmt.Sprintf("(%dx%d,%s)", hd.m, n, op.Pattern)
	case "squeeze":
		dst := make([]trinary.Trits, hd.m)
		if err := hd.real.Squeeze(dst, n); err != nil {
			r.violate("wrong-error", fmt.Sprintf("%s: valid Squeeze of %d lanes x %d trits returned %q", where, hd.m, n, err))
			return
		}
		for j := 0; j < hd.m; j++ {
			want := hd.lanes[j].Squeeze(n)
			if len(dst[j]) != n {
				r.violate("model-divergence:squeeze", fmt.Sprintf("%s: lane %d has %d trits, want %d", where, j, len(dst[j]), n))
				return
			}
			for t := 0; t < n; t++ {
				if dst[j][t] != want[t] {
					r.violate("model-divergence:squeeze", fmt.Sprintf("%s: squeezed trit %d of lane %d (batch size %d) is %d, the single-lane Curl-P-81 sponge gives %d", where, t, j, hd.m, dst[j][t], want[t]))
					return
				}
			}
		}
		if n > 0 {
			hd.squeezing = true
			r.changes++
			if hd.squeezing {
				if blocks >= 4 {
					r.res.Probes["squeeze_blocks_4plus"] = 1
				} else {
					r.res.Probes["squeeze_blocks_"+fmt.Sprint(blocks)] = 1
				}
			}
		}
		desc += fmt.Sprintf("(%dx%d)", hd.m, n)
	case "clone":
		if len(r.handles) >= 4 {
			return
		}
		c := &handle{real: hd.real.Clone(), m: hd.m, lanes: append([]ref.Sponge{}, hd.lanes...), squeezing: hd.squeezing}
		r.handles = append(r.handles, c)
		r.res.Probes["clone"] = 1
		if hd.squeezing {
			r.res.Probes["clone_while_squeezing"] = 1
		}
	case "reset":
		hd.real.Reset()
		m := op.M
		if m < 1 || m > 64 {
			m = hd.m
		}
		hd.m, hd.lanes, hd.squeezing = m, make([]ref.Sponge, m), false
		r.changes++
		r.res.Probes["reset"] = 1
		fl, fh := state(curl.NewCurlP81())
		l, h := state(hd.real)
		for p := range l {
			if l[p] != fl[p] || h[p] != fh[p] {
				r.violate("model-divergence:reset", fmt.Sprintf("%s: after Reset state word %d is (%#x,%#x), a fresh instance has (%#x,%#x)", where, p, l[p], h[p], fl[p], fh[p]))
				return
			}
		}
		desc += fmt.Sprintf("(m=%d)", m)
	case "copystate":
		// the comparison below does it
	case "bad-absorb", "bad-squeeze":
		bl, bh := state(hd.real)
		lanes, cnt := hd.m, n
		var want error
		switch op.Bad {
		case "empty":
			lanes, want = 0, consts.ErrInvalidBatchSize
		case "toomany":
			lanes, want = 65, consts.ErrInvalidBatchSize
		default:
			cnt = n + 1 + int(op.Seed%242)
			want = consts.ErrInvalidTritsLength
			if op.Kind == "bad-squeeze" {
				want = consts.ErrInvalidSqueezeLength
			}
		}
		var err error
		if op.Kind == "bad-absorb" {
			if hd.squeezing {
				return
			}
			err = hd.real.Absorb(genTrits("random", op.Seed, lanes, cnt), cnt)
		} else {
			err = hd.real.Squeeze(make([]trinary.Trits, lanes), cnt)
		}
		r.res.Faults["rejected_call_"+op.Bad]++
		if !errors.Is(err, want) {
			r.violate("wrong-error", fmt.Sprintf("%s (%s: %d lanes, %d trits): returned %v, documented error is %q", where, op.Bad, lanes, cnt, err, want))
			return
		}
		al, ah := state(hd.real)
		for p := range al {
			if al[p] != bl[p] || ah[p] != bh[p] {
				r.violate("state-changed-by-rejected-call", fmt.Sprintf("%s (%s): the call was rejected with %q but state word %d changed from (%#x,%#x) to (%#x,%#x)", where, op.Bad, err, p, bl[p], bh[p], al[p], ah[p]))
				return
			}
		}
		desc += "(" + op.Bad + ")"
	default:
		return
	}
	r.log = append(r.log, desc)
	r.mix(desc + ";")
	// every live handle must still agree with its own model: clones are independent of each other
	for j := range r.handles {
		if !r.checkHandle(j, where) {
			return
		}
	}
}

// Gen draws the configuration of run seed.
func Gen(seed uint64, tier string) *Config {
	r := kernel.NewRand(seed)
	pickM := func() int {
		switch x := r.IntN(10); {
		case x < 2:
			return 1
		case x < 3:
			return 2
		case x < 5:
			return 64
		case x < 6:
			return 63
		default:
			return 1 + r.IntN(64)
		}
	}
	c := &Config{Prop: "C06", M: pickM()}
	if tier != "thorough" && c.M > 8 && r.IntN(3) != 0 {
		c.M = 1 + r.IntN(8) // keep most quick histories cheap for the reference
	}
	n := 4 + r.IntN(13)
	patterns := []string{"random", "random", "random", "zero", "plus", "minus", "same", "onediff"}
	sq := []bool{false} // the generator tracks which handles are squeezing, to respect the sponge discipline
	for len(c.Ops) < n {
		h := r.IntN(len(sq))
		o := Op{H: h, Seed: r.Uint64()}
		x := r.IntN(100)
		switch {
		case !sq[h] && x < 45:
			o.Kind, o.Blocks, o.Pattern = "absorb", 1+r.IntN(3), patterns[r.IntN(len(patterns))]
			switch r.IntN(20) {
			case 0:
				o.Blocks = 0
			case 1:
				o.Blocks = 4 + r.IntN(6) // many blocks in one call
			}
		case x < 62:
			o.Kind, o.Blocks = "squeeze", 1+r.IntN(3)
			switch r.IntN(20) {
			case 0:
				o.Blocks = 0
			case 1:
				o.Blocks = 4 + r.IntN(6)
			}
			if o.Blocks > 0 {
				sq[h] = true
			}
		case x < 72:
			o.Kind = "clone"
			if len(sq) < 4 {
				sq = append(sq, sq[h])
			}
		case x < 80:
			o.Kind, o.M = "reset", pickM()
			if tier != "thorough" && o.M > 8 && r.IntN(3) != 0 {
				o.M = 1 + r.IntN(8)
			}
			sq[h] = false
		case x < 83:
			o.Kind = "copystate"
		case x < 92 && !sq[h]:
			o.Kind, o.Bad, o.Blocks = "bad-absorb", []string{"empty", "toomany", "length"}[r.IntN(3)], r.IntN(3)
		default:
			o.Kind, o.Bad, o.Blocks = "bad-squeeze", []string{"empty", "toomany", "length"}[r.IntN(3)], r.IntN(3)
		}
		c.Ops = append(c.Ops, o)
	}
	return c
}
