// Package curlsim drives the batched Curl (pkg/curl) through generated histories of Absorb / Squeeze /
// Clone / Reset / CopyState calls and injected caller errors on several live handles, and checks every
// step against 64 independent single-lane reference sponges per handle.
package curlsim

import (
	"encoding/json"
	"errors"
	"fmt"
	"math/bits"
	"runtime/debug"
	"sort"
	"strings"

	"github.com/iotaledger/iota.go/consts"
	"github.com/iotaledger/iota.go/trinary"
	"github.com/wollac/iota-crypto-demo/pkg/curl"

	"verif/sim/kernel"
	"verif/sim/proto"
	"verif/sim/ref"
)

// Op is one call of a history.
type Op struct {
	Kind    string `json:"kind"` // absorb | squeeze | clone | reset | copystate | bad-absorb | bad-squeeze
	H       int    `json:"h"`    // handle (taken modulo the number of live handles)
	Blocks  int    `json:"blocks,omitempty"`
	Pattern string `json:"pattern,omitempty"` // random | zero | plus | minus | same | onediff | aliased | overlap
	Seed    uint64 `json:"seed,omitempty"`
	Bad     string `json:"bad,omitempty"`   // empty | toomany | length
	Dst     string `json:"dst,omitempty"`   // squeeze: what the caller puts into dst - "" (nil entries) | carved | reuse
	M       int    `json:"m,omitempty"`     // reset: batch size of the next history of this handle
	Lanes   int    `json:"lanes,omitempty"` // squeeze: > 0: only the first 1 + (Lanes-1) mod m lanes are asked for
}

// Config is one run.
type Config struct {
	Prop string `json:"prop"`
	M    int    `json:"m"` // batch size of the first handle
	Ops  []Op   `json:"ops"`
}

// Every handle is owned by its own goroutine (an "actor"): the caller that holds a clone is, in general, another
// goroutine than the one that holds the original. The root dispatches one operation at a time (so the history is the
// sequential one the run describes) with a visible channel send (root happens-before actor), and receives the
// acknowledgement inside a region hidden from the race detector, so that NO happens-before edge leads from one actor to
// another. In a -race build of the portable permutation, state shared between an instance and its clone is then reported
// as the data race it is, even though the simulated history never runs two operations at the same time.
type handle struct {
	idx       int
	real      *curl.Curl
	m         int
	lanes     []ref.Sponge // m single-lane reference sponges
	squeezing bool
	lastDst   []trinary.Trits // what the previous Squeeze of this handle returned
	kept      []trinary.Trits // a private copy of it: the caller's output must not change behind its back
	keptOp    int
	prevDst   []trinary.Trits // the output before that one, still held by the caller
	prevKept  []trinary.Trits
	prevOp    int

	// owned by the actor goroutine until it has exited
	in      chan opMsg
	class   string
	message string
	log     []logEntry
	probes  map[string]int
	faults  map[string]int
	changes int

	mayPanic bool // the call in progress is outside the contract and may panic
	dead     bool // it did: the instance is in no defined state any more
}

type opMsg struct {
	index int
	op    Op
	idx   int  // handle number as the root counts them
	live  int  // number of live handles (Clone is skipped at 4)
	check bool // no operation: only compare the handle with its model
}

type logEntry struct {
	index, idx, m, n int
	kind, extra      string
}

func (e logEntry) String() string {
	switch e.kind {
	case "absorb":
		return fmt.Sprintf("#%d.absorb(%dx%d,%s)", e.idx, e.m, e.n, e.extra)
	case "squeeze":
		if e.extra != "" {
			return fmt.Sprintf("#%d.squeeze(%dx%d,dst=%s)", e.idx, e.m, e.n, e.extra)
		}
		return fmt.Sprintf("#%d.squeeze(%dx%d)", e.idx, e.m, e.n)
	case "reset":
		return fmt.Sprintf("#%d.reset(m=%d)", e.idx, e.m)
	case "bad-absorb", "bad-squeeze":
		return fmt.Sprintf("#%d.%s(%s)", e.idx, e.kind, e.extra)
	}
	return fmt.Sprintf("#%d.%s", e.idx, e.kind)
}

// inboxCap: an inbox never holds more messages in a whole run than it has slots. A channel orders the k-th receive
// before the completion of the (k+cap)-th send (and an unbuffered one synchronises in both directions); with no slot
// ever reused the only happens-before edges are root -> actor.
const inboxCap = 1024

// ack is what an actor tells the root after an operation — by value, through a channel, inside a hidden region.
type ack struct {
	violated bool
	stop     bool       // the history ends here without a verdict (a call outside the contract panicked, as it may)
	inbox    chan opMsg // non-nil: a clone was created and its actor started
	state    *handle    // not dereferenced by the root before the actor has exited
}

type runState struct {
	cfg *Config
	res proto.End
}

func (hd *handle) violate(class, msg string) {
	if hd.class == "" {
		hd.class, hd.message = class, msg
	}
}

func genTrits(pattern string, seed uint64, m, n int) []trinary.Trits {
	rnd := kernel.NewRand(seed)
	out := make([]trinary.Trits, m)
	rt := func() int8 { return int8(rnd.IntN(3)) - 1 }
	switch pattern {
	case "zero", "plus", "minus":
		v := map[string]int8{"zero": 0, "plus": 1, "minus": -1}[pattern]
		for j := range out {
			out[j] = make(trinary.Trits, n)
			for i := range out[j] {
				out[j][i] = v
			}
		}
	case "same", "onediff":
		base := make(trinary.Trits, n)
		for i := range base {
			base[i] = rt()
		}
		for j := range out {
			out[j] = append(trinary.Trits{}, base...)
			if pattern == "onediff" && n > 0 && j > 0 {
				p := rnd.IntN(n)
				out[j][p] = (out[j][p]+2)%3 - 1
			}
		}
	case "aliased":
		// the very same slice for every lane: legal input, every lane's "input alone" is that one sequence
		base := make(trinary.Trits, n)
		for i := range base {
			base[i] = rt()
		}
		for j := range out {
			out[j] = base
		}
	case "carved", "carved-swapped", "carved-replaced":
		// lanes carved back to back from one flat buffer, the way a caller holding one big array builds a batch: in
		// natural order; with two inner lanes exchanged (the batch was sorted or shuffled, the ends stayed); or with one
		// inner lane replaced by a slice of its own. Each lane's input is still exactly src[j].
		flat := make(trinary.Trits, n*m)
		for i := range flat {
			flat[i] = rt()
		}
		for j := range out {
			out[j] = flat[j*n : (j+1)*n]
		}
		if m >= 3 {
			a := 1 + rnd.IntN(m-2)
			switch {
			case pattern == "carved-swapped" && m >= 4:
				b := 1 + rnd.IntN(m-2)
				for b == a {
					b = 1 + rnd.IntN(m-2)
				}
				out[a], out[b] = out[b], out[a]
			case pattern != "carved":
				own := make(trinary.Trits, n)
				for i := range own {
					own[i] = rt()
				}
				out[a] = own
			}
		}
	case "overlap":
		// windows into one flat buffer, lane j starting j trits in: the lanes overlap in memory and all differ
		flat := make(trinary.Trits, n+m)
		for i := range flat {
			flat[i] = rt()
		}
		for j := range out {
			out[j] = flat[j : j+n : j+n]
		}
	default:
		for j := range out {
			out[j] = make(trinary.Trits, n)
			for i := range out[j] {
				out[j][i] = rt()
			}
		}
	}
	return out
}

func state(c *curl.Curl) (l, h []uint) {
	l, h = make([]uint, curl.StateSize), make([]uint, curl.StateSize)
	c.CopyState(l, h)
	return
}

func mask(m int) uint {
	if m >= bits.UintSize {
		return ^uint(0)
	}
	return uint(1)<<uint(m) - 1
}

// checkHandle compares the state of a handle with its model on the supplied lanes.
func (hd *handle) check(opIndex int, note string) bool {
	idx := hd.idx
	l, h := state(hd.real)
	mk := mask(hd.m)
	for i := 0; i < ref.StateLen; i++ {
		var wl, wh uint = ^uint(0), ^uint(0)
		for j := 0; j < hd.m; j++ {
			switch hd.lanes[j].S[i] {
			case 1:
				wl &^= 1 << uint(j)
			case -1:
				wh &^= 1 << uint(j)
			}
		}
		if (l[i]^wl)&mk != 0 || (h[i]^wh)&mk != 0 {
			lane := 0
			for j := 0; j < hd.m; j++ {
				if ((l[i]^wl)|(h[i]^wh))>>uint(j)&1 == 1 {
					lane = j
					break
				}
			}
			where := fmt.Sprintf("after op %d%s", opIndex, note)
			hd.violate("model-divergence:state", fmt.Sprintf("%s: state of handle #%d differs from the reference at trit %d of lane %d (batch size %d): planes (l=%d,h=%d), reference trit %d",
				where, idx, i, lane, hd.m, l[i]>>uint(lane)&1, h[i]>>uint(lane)&1, hd.lanes[lane].S[i]))
			return false
		}
	}
	return true
}

// outputIntact checks that the slices the previous Squeeze of this handle returned still hold what they held then.
func (hd *handle) outputIntact(opIndex int) bool {
	for j := range hd.prevKept {
		if j >= len(hd.prevDst) || len(hd.prevDst[j]) != len(hd.prevKept[j]) {
			continue
		}
		for t := range hd.prevKept[j] {
			if hd.prevDst[j][t] != hd.prevKept[j][t] {
				hd.violate("model-divergence:returned-output-changed", fmt.Sprintf("at op %d on handle #%d: the trits returned by the Squeeze of op %d were changed by a later call (lane %d, trit %d: %d -> %d)", opIndex, hd.idx, hd.prevOp, j, t, hd.prevKept[j][t], hd.prevDst[j][t]))
				return false
			}
		}
	}
	for j := range hd.kept {
		if j >= len(hd.lastDst) || len(hd.lastDst[j]) != len(hd.kept[j]) {
			continue
		}
		for t := range hd.kept[j] {
			if hd.lastDst[j][t] != hd.kept[j][t] {
				hd.violate("model-divergence:returned-output-changed", fmt.Sprintf("before op %d on handle #%d: the trits returned by the Squeeze of op %d changed afterwards (lane %d, trit %d: %d -> %d)", opIndex, hd.idx, hd.keptOp, j, t, hd.kept[j][t], hd.lastDst[j][t]))
				return false
			}
		}
	}
	return true
}

// loop is the body of an actor goroutine.
func (hd *handle) loop(acks chan ack, exits chan *handle) {
	for msg := range hd.in {
		a := ack{}
		func() {
			defer func() {
				if p := recover(); p != nil {
					if hd.mayPanic {
						// a batch outside the contract (lanes of unequal length): the property promises nothing about a
						// panic, and nothing about the instance afterwards — the history ends here
						hd.mayPanic, a.stop = false, true
						hd.faults["ragged_batch_panicked"]++
						hd.dead = true
						return
					}
					m := fmt.Sprintf("%v", p)
					hd.violate("panic:"+m, fmt.Sprintf("op %d %+v: %s\n%s", msg.index, msg.op, m, debug.Stack()))
				}
			}()
			if msg.check {
				hd.check(msg.index, " on another handle")
			} else if c := hd.step(msg); c != nil {
				c.in = make(chan opMsg, inboxCap)
				go c.loop(acks, exits)
				a.inbox, a.state = c.in, c
			}
		}()
		a.violated = hd.class != ""
		a.stop = a.stop || hd.dead
		kernel.Hidden(func() { acks <- a })
	}
	if hd.class == "" && !hd.dead && hd.outputIntact(-1) {
		hd.check(-1, " (end of the history)")
	}
	exits <- hd // visible: the root may read the actor's memory after this
}

// Run executes one configuration.
func Run(cfg *Config) proto.End {
	r := &runState{cfg: cfg}
	r.res.Faults, r.res.Probes, r.res.Tags = map[string]int{}, map[string]int{}, map[string]string{}
	m := cfg.M
	if m < 1 || m > 64 {
		m = 1
	}
	acks, exits := make(chan ack, 1), make(chan *handle, 8)
	first := &handle{m: m, in: make(chan opMsg, inboxCap), probes: map[string]int{}, faults: map[string]int{}}
	inboxes := []chan opMsg{first.in}
	go func() {
		first.real, first.lanes = curl.NewCurlP81(), make([]ref.Sponge, m)
		first.loop(acks, exits)
	}()
	// a bystander: an instance that has nothing to do with the others (not a clone), on a goroutine of its own, used
	// now and then while the history runs: package-level state shared by ALL instances shows up here
	bm := 1 + int(cfg.M)%3
	by := &handle{idx: 99, m: bm, in: make(chan opMsg, inboxCap), probes: map[string]int{}, faults: map[string]int{}}
	byIn := by.in
	go func() {
		by.real, by.lanes = curl.NewCurlP81(), make([]ref.Sponge, bm)
		by.loop(acks, exits)
	}()
	byOps := 0
	for i := range cfg.Ops {
		op := cfg.Ops[i]
		if i%3 == 2 {
			kind := "absorb"
			if byOps%4 == 3 {
				kind = "reset"
			} else if byOps%2 == 1 {
				kind = "squeeze"
			}
			byIn <- opMsg{index: i, idx: 99, live: 4, op: Op{Kind: kind, Blocks: 1, Pattern: "random", Seed: op.Seed ^ 0x5bd1e995, M: bm}}
			var b ack
			kernel.Hidden(func() { b = <-acks })
			byOps++
			if b.violated || b.stop {
				break
			}
		}
		idx := ((op.H % len(inboxes)) + len(inboxes)) % len(inboxes)
		inboxes[idx] <- opMsg{index: i, op: op, idx: idx, live: len(inboxes)}
		var a ack
		kernel.Hidden(func() { a = <-acks })
		if a.violated || a.stop {
			break
		}
		// no operation may disturb another handle: every other live handle compares itself with its model now
		stop := false
		for j, in := range inboxes {
			if j == idx {
				continue
			}
			in <- opMsg{index: i, idx: j, check: true}
			var b ack
			kernel.Hidden(func() { b = <-acks })
			stop = stop || b.violated
		}
		if a.inbox != nil {
			inboxes = append(inboxes, a.inbox)
		}
		if stop {
			break
		}
	}
	close(byIn)
	for _, in := range inboxes {
		close(in)
	}
	var all []*handle
	for i := 0; i < len(inboxes)+1; i++ {
		all = append(all, <-exits)
	}
	// every actor has exited (visible receive above): their memory may be read now; the order of exits is the Go
	// scheduler's business and must not show in the result
	sort.Slice(all, func(i, j int) bool { return all[i].idx < all[j].idx })
	var log []logEntry
	changes := 0
	for _, hd := range all {
		if hd.class != "" && r.res.Class == "" {
			r.res.Class, r.res.Message = hd.class, hd.message
		}
		for k, v := range hd.probes {
			r.res.Probes[k] += v
		}
		for k, v := range hd.faults {
			r.res.Faults[k] += v
		}
		log = append(log, hd.log...)
		changes += hd.changes
	}
	sort.Slice(log, func(i, j int) bool {
		if log[i].index != log[j].index {
			return log[i].index < log[j].index
		}
		return log[i].idx > log[j].idx // the bystander (#99) is used before the operation of the same index
	})
	hash := uint64(14695981039346656037)
	var descs []string
	for _, e := range log {
		d := e.String()
		descs = append(descs, d)
		for i := 0; i < len(d); i++ {
			hash ^= uint64(d[i])
			hash *= 1099511628211
		}
		hash ^= ';'
		hash *= 1099511628211
	}
	r.res.Steps = len(cfg.Ops)
	r.res.TraceHash = fmt.Sprintf("%016x", hash)
	r.res.Outcome = "ok"
	if r.res.Class != "" {
		r.res.Outcome = "violation"
		b, _ := json.Marshal(cfg)
		r.res.Config = b
	}
	if len(cfg.Ops) > 250 && cfg.Ops[0].Blocks >= 250 {
		r.res.Probes["more_than_65535_transforms_on_one_instance"] = 1
		r.res.Tags["special"] = "very-long"
	}
	r.res.Nontriv = changes >= 2
	r.res.Tags["handles"] = fmt.Sprint(len(inboxes))
	r.res.Tags["first_batch_size"] = fmt.Sprint(m)
	b, _ := json.Marshal(map[string]any{"batch_size": m, "history": descs})
	r.res.Sample = b
	return r.res
}

var blockKey = [...]string{"0", "1", "2", "3"}

func probeKey(prefix string, blocks int) string {
	if blocks >= 4 {
		return prefix + "4plus"
	}
	return prefix + blockKey[blocks]
}

// step executes one operation on the actor's own handle; it returns the new handle if the operation was a Clone.
//
// Nothing on the path of a conforming operation may use fmt, math/big or anything else built on sync.Pool: a pool hands
// objects from one goroutine to another with real synchronisation, which would order the actors for the race detector.
// Messages are therefore formatted only once a violation has been found (where() below), and the log holds plain fields
// that the root formats after the actors have exited.
func (hd *handle) step(msg opMsg) (clone *handle) {
	i, op, idx := msg.index, &msg.op, msg.idx
	hd.idx = idx
	if !hd.outputIntact(i) {
		return nil
	}
	where := func() string { return fmt.Sprintf("op %d %s on handle #%d", i, op.Kind, idx) }
	blocks := op.Blocks
	if blocks < 0 {
		blocks = 0
	}
	n := blocks * ref.HashLen
	e := logEntry{index: i, idx: idx, kind: op.Kind, m: hd.m, n: n}
	if hd.m > bits.UintSize && (op.Kind == "absorb" || op.Kind == "squeeze") {
		// a 32-bit build: one lane per bit of a state word, so a batch of more than 32 sequences cannot be represented
		// (the package documents MaxBatchSize = bits.UintSize). Such a call must be rejected and leave the state untouched;
		// accepting it would fold lane 32+k onto lane k.
		if op.Kind == "absorb" && hd.squeezing {
			return
		}
		bl, bh := state(hd.real)
		var err error
		if op.Kind == "absorb" {
			err = hd.real.Absorb(genTrits(op.Pattern, op.Seed, hd.m, n), n)
		} else {
			err = hd.real.Squeeze(make([]trinary.Trits, hd.m), n)
		}
		hd.faults["rejected_call_more_lanes_than_word_bits"]++
		if !errors.Is(err, consts.ErrInvalidBatchSize) {
			hd.violate("wrong-error", fmt.Sprintf("%s: %d lanes on a build with %d-bit words: returned %v, documented error is %q", where(), hd.m, bits.UintSize, err, consts.ErrInvalidBatchSize))
			return
		}
		al, ah := state(hd.real)
		for p := range al {
			if al[p] != bl[p] || ah[p] != bh[p] {
				hd.violate("state-changed-by-rejected-call", fmt.Sprintf("%s (%d lanes, %d-bit words): the call was rejected with %q but state word %d changed", where(), hd.m, bits.UintSize, err, p))
				return
			}
		}
		e.extra = "rejected"
		hd.log = append(hd.log, e)
		hd.check(i, "")
		return nil
	}
	switch op.Kind {
	case "absorb":
		if hd.squeezing {
			return // the sponge discipline forbids it (the call panics by design); not part of the property
		}
		src := genTrits(op.Pattern, op.Seed, hd.m, n)
		if err := hd.real.Absorb(src, n); err != nil {
			hd.violate("wrong-error", fmt.Sprintf("%s: valid Absorb of %d lanes x %d trits returned %q", where(), hd.m, n, err))
			return
		}
		// the model absorbs its own copy of the input, generated separately: whatever the call did to the caller's
		// slices cannot reach the reference
		model := genTrits(op.Pattern, op.Seed, hd.m, n)
		for j := 0; j < hd.m; j++ {
			hd.lanes[j].Absorb(model[j])
		}
		if op.Pattern == "aliased" || op.Pattern == "overlap" || strings.HasPrefix(op.Pattern, "carved") {
			hd.probes["absorb_lanes_sharing_memory"] = 1
		}
		// the caller reuses its input buffers: whatever Absorb needed from src it must have taken by now
		for j := range src {
			for t := range src[j] {
				src[j][t] = int8((t+j)%3) - 1
			}
		}
		if n > 0 {
			hd.changes++
		}
		hd.probes[probeKey("absorb_blocks_", blocks)] = 1
		e.extra = op.Pattern
	case "squeeze":
		// Squeeze documents nothing about the contents of dst on entry and overwrites every entry, so a caller may
		// pass anything: nil entries, pieces carved from one flat buffer (disjoint lengths, capacities running into
		// the next lane's piece), or the slices a previous call returned
		// a caller interested in the first k lanes only passes k slices; the other lanes go through the same
		// transforms all the same, and a later full Squeeze must find them where their own sponges are
		k := hd.m
		if op.Lanes > 0 {
			if k = 1 + (op.Lanes-1)%hd.m; k < hd.m {
				hd.probes["squeeze_of_fewer_lanes_than_absorbed"] = 1
			}
		}
		dst := make([]trinary.Trits, k)
		switch op.Dst {
		case "carved":
			flat := make(trinary.Trits, k*ref.HashLen)
			for j := range dst {
				dst[j] = flat[j*ref.HashLen : (j+1)*ref.HashLen]
			}
			hd.probes["squeeze_into_carved_buffer"] = 1
		case "reuse":
			if len(hd.lastDst) == k {
				dst = hd.lastDst
				hd.probes["squeeze_into_previous_output"] = 1
			}
		}
		if op.Dst != "reuse" {
			hd.prevDst, hd.prevKept, hd.prevOp = hd.lastDst, hd.kept, hd.keptOp // the caller keeps the earlier output
		}
		hd.lastDst, hd.kept = dst, nil
		fresh := k > 0 && dst[0] == nil // the implementation provides the memory of the output
		if err := hd.real.Squeeze(dst, n); err != nil {
			hd.violate("wrong-error", fmt.Sprintf("%s: valid Squeeze of %d lanes x %d trits returned %q", where(), k, n, err))
			return
		}
		if fresh {
			// slices the call made are the caller's to append to: what lies behind a lane's length, up to its capacity,
			// is nobody else's memory. The caller writes there before it looks at any lane.
			for j := range dst {
				sp := dst[j][len(dst[j]):cap(dst[j])]
				for t := range sp {
					sp[t] = int8((t+2*j)%3) - 1
				}
				if len(sp) > 0 {
					hd.probes["squeeze_output_with_spare_capacity_written"] = 1
				}
			}
		}
		for j := 0; j < hd.m; j++ {
			want := hd.lanes[j].Squeeze(n)
			if j >= k {
				continue // not asked for; its sponge has advanced all the same
			}
			if len(dst[j]) != n {
				hd.violate("model-divergence:squeeze", fmt.Sprintf("%s: lane %d has %d trits, want %d", where(), j, len(dst[j]), n))
				return
			}
			for t := 0; t < n; t++ {
				if dst[j][t] != want[t] {
					hd.violate("model-divergence:squeeze", fmt.Sprintf("%s: squeezed trit %d of lane %d (batch size %d) is %d, the single-lane Curl-P-81 sponge gives %d", where(), t, j, hd.m, dst[j][t], want[t]))
					return
				}
			}
		}
		if n > 0 {
			hd.squeezing = true
			hd.changes++
			hd.probes[probeKey("squeeze_blocks_", blocks)] = 1
		}
		// what Squeeze returned belongs to the caller: remember it, and look again before this handle's next call
		hd.kept, hd.keptOp = make([]trinary.Trits, len(dst)), i
		for j := range dst {
			hd.kept[j] = append(trinary.Trits{}, dst[j]...)
		}
		e.extra = op.Dst
	case "clone":
		if msg.live >= 4 {
			return
		}
		clone = &handle{idx: msg.live, real: hd.real.Clone(), m: hd.m, lanes: append([]ref.Sponge{}, hd.lanes...), squeezing: hd.squeezing,
			probes: map[string]int{}, faults: map[string]int{}}
		hd.probes["clone"] = 1
		if hd.squeezing {
			hd.probes["clone_while_squeezing"] = 1
		}
	case "reset":
		hd.real.Reset()
		m := op.M
		if m < 1 || m > 64 {
			m = hd.m
		}
		hd.m, hd.lanes, hd.squeezing = m, make([]ref.Sponge, m), false
		hd.changes++
		hd.probes["reset"] = 1
		fl, fh := state(curl.NewCurlP81())
		l, h := state(hd.real)
		for p := range l {
			if l[p] != fl[p] || h[p] != fh[p] {
				hd.violate("model-divergence:reset", fmt.Sprintf("%s: after Reset state word %d is (%#x,%#x), a fresh instance has (%#x,%#x)", where(), p, l[p], h[p], fl[p], fh[p]))
				return
			}
		}
		e.m = m
	case "copystate":
		// the comparison below does it
	case "bad-absorb", "bad-squeeze":
		bl, bh := state(hd.real)
		lanes, cnt := hd.m, n
		var want error
		switch op.Bad {
		case "ragged":
			// one lane (not the first) is a block short, with no spare capacity: outside the contract ("equally long"),
			// so a panic is acceptable and ends the history; but if the call chooses to REJECT the batch with an error,
			// the rejection must leave the state untouched like any other
			if op.Kind != "bad-absorb" || hd.m < 2 || hd.squeezing || hd.m > bits.UintSize {
				return
			}
			if cnt == 0 {
				cnt = ref.HashLen
			}
			src := genTrits("random", op.Seed, hd.m, cnt)
			short := 1 + int((op.Seed>>8)%uint64(hd.m-1))
			src[short] = append(trinary.Trits{}, src[short][:cnt-ref.HashLen]...)
			hd.mayPanic = true
			err := hd.real.Absorb(src, cnt)
			hd.mayPanic = false
			hd.faults["rejected_call_ragged"]++
			if err == nil {
				hd.dead = true // accepted something undefined: no verdict, no further use of this instance
				return
			}
			al, ah := state(hd.real)
			for p := range al {
				if al[p] != bl[p] || ah[p] != bh[p] {
					hd.violate("state-changed-by-rejected-call", fmt.Sprintf("%s (ragged: lane %d of %d is one block short of %d trits): the call was rejected with %q but state word %d changed from (%#x,%#x) to (%#x,%#x)", where(), short, hd.m, cnt, err, p, bl[p], bh[p], al[p], ah[p]))
					return
				}
			}
			e.extra = op.Bad
			hd.log = append(hd.log, e)
			hd.check(i, "")
			return nil
		case "empty":
			lanes, want = 0, consts.ErrInvalidBatchSize
		case "toomany":
			lanes, want = 65, consts.ErrInvalidBatchSize
		default:
			cnt = n + 1 + int(op.Seed%242)
			want = consts.ErrInvalidTritsLength
			if op.Kind == "bad-squeeze" {
				want = consts.ErrInvalidSqueezeLength
			}
		}
		var err error
		if op.Kind == "bad-absorb" {
			if hd.squeezing {
				return
			}
			err = hd.real.Absorb(genTrits("random", op.Seed, lanes, cnt), cnt)
		} else {
			err = hd.real.Squeeze(make([]trinary.Trits, lanes), cnt)
		}
		hd.faults["rejected_call_"+op.Bad]++
		// a call that is wrong in two ways (more lanes than a word has bits AND a bad length) may name either
		if !errors.Is(err, want) && !(lanes > bits.UintSize && errors.Is(err, consts.ErrInvalidBatchSize)) {
			hd.violate("wrong-error", fmt.Sprintf("%s (%s: %d lanes, %d trits): returned %v, documented error is %q", where(), op.Bad, lanes, cnt, err, want))
			return
		}
		al, ah := state(hd.real)
		for p := range al {
			if al[p] != bl[p] || ah[p] != bh[p] {
				hd.violate("state-changed-by-rejected-call", fmt.Sprintf("%s (%s): the call was rejected with %q but state word %d changed from (%#x,%#x) to (%#x,%#x)", where(), op.Bad, err, p, bl[p], bh[p], al[p], ah[p]))
				return
			}
		}
		e.extra = op.Bad
	default:
		return
	}
	hd.log = append(hd.log, e)
	if !hd.outputIntact(i) {
		return clone
	}
	// the handle must agree with its own model after each of its operations; the root makes every OTHER live handle
	// compare itself as well, so an operation that disturbs another handle is seen at once
	hd.check(i, "")
	return clone
}

// Flavour is the build flavour of the child (set by the child before it generates runs): the very long history is left
// out of the race-detector builds, where 66 000 portable transforms take minutes.
var Flavour string

// Gen draws the configuration of run seed.
func Gen(seed uint64, tier string) *Config {
	r := kernel.NewRand(seed)
	pickM := func() int {
		switch x := r.IntN(10); {
		case x < 2:
			return 1
		case x < 3:
			return 2
		case x < 5:
			return 64
		case x < 6:
			return 63
		default:
			return 1 + r.IntN(64)
		}
	}
	c := &Config{Prop: "C06", M: pickM()}
	if tier != "thorough" && c.M > 8 && r.IntN(3) != 0 {
		c.M = 1 + r.IntN(8) // keep most quick histories cheap for the reference
	}
	n := 4 + r.IntN(13)
	long := r.IntN(60) == 0 // a few long histories with many blocks per call: counters, tables built lazily, ...
	if long {
		n = 20 + r.IntN(30)
		c.M = 1 + r.IntN(3)
	}
	if veryLong := r.IntN(2500) == 0; veryLong && !strings.HasPrefix(Flavour, "race") {
		// once in a long while: more transforms on one instance than a 16-bit counter holds (one lane, 260 absorbs of
		// 250-odd blocks, then one block squeezed)
		c.M = 1
		c.Ops = nil
		for i := 0; i < 260; i++ {
			c.Ops = append(c.Ops, Op{Kind: "absorb", H: 0, Blocks: 250 + r.IntN(10), Pattern: "random", Seed: r.Uint64()})
		}
		c.Ops = append(c.Ops, Op{Kind: "squeeze", H: 0, Blocks: 1, Seed: r.Uint64()})
		return c
	}
	patterns := []string{"random", "random", "random", "zero", "plus", "minus", "same", "onediff", "aliased", "overlap", "carved", "carved-swapped", "carved-replaced"}
	sq := []bool{false} // the generator tracks which handles are squeezing, to respect the sponge discipline
	for len(c.Ops) < n {
		h := r.IntN(len(sq))
		o := Op{H: h, Seed: r.Uint64()}
		x := r.IntN(100)
		switch {
		case !sq[h] && x < 45:
			o.Kind, o.Blocks, o.Pattern = "absorb", 1+r.IntN(3), patterns[r.IntN(len(patterns))]
			switch r.IntN(20) {
			case 0:
				o.Blocks = 0
			case 1:
				o.Blocks = 4 + r.IntN(6) // many blocks in one call
			}
			if long && r.IntN(4) == 0 {
				o.Blocks = 10 + r.IntN(40)
			}
		case x < 62:
			o.Kind, o.Blocks = "squeeze", 1+r.IntN(3)
			switch r.IntN(20) {
			case 0:
				o.Blocks = 0
			case 1:
				o.Blocks = 4 + r.IntN(6)
			}
			if long && r.IntN(4) == 0 {
				o.Blocks = 10 + r.IntN(40)
			}
			switch r.IntN(8) {
			case 0:
				o.Dst = "carved"
			case 1:
				o.Dst = "reuse"
			}
			if r.IntN(6) == 0 {
				o.Lanes = 1 + r.IntN(64)
			}
			if o.Blocks > 0 {
				sq[h] = true
			}
		case x < 72:
			o.Kind = "clone"
			if len(sq) < 4 {
				sq = append(sq, sq[h])
			}
		case x < 80:
			o.Kind, o.M = "reset", pickM()
			if tier != "thorough" && o.M > 8 && r.IntN(3) != 0 {
				o.M = 1 + r.IntN(8)
			}
			if long {
				o.M = 1 + r.IntN(3)
			}
			sq[h] = false
		case x < 83:
			o.Kind = "copystate"
		case x < 92 && !sq[h]:
			o.Kind, o.Bad, o.Blocks = "bad-absorb", []string{"empty", "toomany", "length", "ragged"}[r.IntN(4)], r.IntN(3)
		default:
			o.Kind, o.Bad, o.Blocks = "bad-squeeze", []string{"empty", "toomany", "length"}[r.IntN(3)], r.IntN(3)
		}
		c.Ops = append(c.Ops, o)
	}
	return c
}
