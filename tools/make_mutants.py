#!/usr/bin/env python3
"""Regenerate /verif/mutants/<id>/{patch.diff,meta.json} from textual substitutions on a scratch clone of /repo.
Hand-written catalogue of changes the checks must catch ("violation") and of behaviour-preserving edits they
must not flag ("clean"). Used by `./verif.sh selftest sensitivity`."""
import json, os, subprocess, shutil, sys, tempfile

V1 = "pkg/pow/worker.go"; V2 = "pkg/pow/v2/worker.go"; V2P = "pkg/pow/v2/pow.go"; V1P = "pkg/pow/pow.go"
S = "pkg/slip10/slip10.go"; C = "pkg/curl/curl.go"

M = [
 # id, property, expect, file, old, new, note
 ("m01-c13-results-unbuffered", "C13", "violation", V1, "results = make(chan uint64, w.numWorkers)", "results = make(chan uint64)", "finder blocks in the send, join never completes"),
 ("m02-c13-close-results-before-join", "C13", "violation", V2, "\twg.Wait()\n\tsimYield(\"mine.joined\", simCaller)\n\tclose(results)\n", "\tclose(results)\n\twg.Wait()\n\tsimYield(\"mine.joined\", simCaller)\n", "send on closed channel when a worker finds"),
 ("m03-c13-closing-never-closed", "C13", "violation", V1, "\tclose(closing)\n", "", "watcher leaks when the context is never cancelled"),
 ("m04-c13-nonatomic-watcher-store", "C13", "violation", V2, "\t\t\tsimYield(\"watcher.cancelled\", simWatcher)\n\t\t\tatomic.StoreUint32(&done, 1)", "\t\t\tsimYield(\"watcher.cancelled\", simWatcher)\n\t\t\tdone = 1", "data race between watcher and workers"),
 ("m05-c13-watcher-store-removed", "C13", "violation", V1, "\t\t\tsimYield(\"watcher.cancelled\", simWatcher)\n\t\t\tatomic.StoreUint32(&done, 1)", "\t\t\tsimYield(\"watcher.cancelled\", simWatcher)", "cancellation no longer stops the workers"),
 ("m06-c13-wgadd-in-goroutine", "C13", "violation", V1, "\t\twg.Add(1)\n\t\tgo func() {\n\t\t\tdefer wg.Done()", "\t\tgo func() {\n\t\t\twg.Add(1)\n\t\t\tdefer wg.Done()", "Wait may return before a worker registered"),
 ("m07-c13-finder-store-removed", "C13", "clean", V1, "\t\t\tsimYield(\"worker.found\", wid)\n\t\t\tatomic.StoreUint32(&done, 1)", "\t\t\tsimYield(\"worker.found\", wid)", "other workers keep mining until they find or are cancelled: slower, but every clause of C13 still holds"),
 ("m08-c13-larger-buffer", "C13", "clean", V2, "results = make(chan uint64, w.numWorkers)", "results = make(chan uint64, w.numWorkers+1)", "behaviour preserving"),
 ("m09-c13-read-before-join", "C13", "violation", V1, "\tsimYield(\"mine.wait\", simCaller)\n\twg.Wait()", "\tfirst, gotFirst := <-results\n\tsimYield(\"mine.wait\", simCaller)\n\twg.Wait()", "blocks forever if nobody finds (cancelled run)"),
 ("m10-c13-cancel-wins-over-nonce", "C13", "clean", V2, "\tnonce, ok := <-results\n\tif !ok {", "\tnonce, ok := <-results\n\tif !ok || ctx.Err() != nil {", "returns the cancellation error although a nonce is buffered, only when the context IS cancelled: allowed by the statement"),
 ("m11-c13-watcher-ignores-closing", "C13", "violation", V2, "\t\tcase <-closing:\n\t\t\treturn\n", "", "watcher leaks unless the context is cancelled"),
 ("m12-c13-counter-nonatomic", "C13", "violation", V1, "\t\tatomic.AddUint64(counter, bct.MaxBatchSize)", "\t\t*counter += bct.MaxBatchSize", "data race on the shared counter with >= 2 workers"),
 ("m13-c13-done-polled-every-other-batch", "C13", "clean", V2, "for nonce := startNonce; atomic.LoadUint32(done) == 0; nonce += bct.MaxBatchSize {", "for nonce := startNonce; (nonce-startNonce)%128 != 0 || atomic.LoadUint32(done) == 0; nonce += bct.MaxBatchSize {", "stop flag polled every second batch: still bounded"),
 ("m14-c13-check-then-act-no-hook-between", "C13", "violation", V1, "\t\t\tsimYield(\"worker.found\", wid)\n\t\t\tatomic.StoreUint32(&done, 1)", "\t\t\tsimYield(\"worker.found\", wid)\n\t\t\tif atomic.LoadUint32(&done) != 0 {\n\t\t\t\treturn\n\t\t\t}\n\t\t\tatomic.StoreUint32(&done, 1)", "results capacity 1 plus a check-then-act on done with NO hand-placed hook between the load and the store: only the auto-instrumented flavour can interleave two workers there"),
 ("m15-c13-finders-serialised-by-mutex", "C13", "clean", V1, "\t\t\tsimYield(\"worker.found\", wid)\n\t\t\tatomic.StoreUint32(&done, 1)\n\t\t\tsimYield(\"worker.send\", wid)\n\t\t\tresults <- nonce", "\t\t\tfindMu.Lock()\n\t\t\tsimYield(\"worker.found\", wid)\n\t\t\tatomic.StoreUint32(&done, 1)\n\t\t\tsimYield(\"worker.send\", wid)\n\t\t\tresults <- nonce\n\t\t\tfindMu.Unlock()", "behaviour preserving: finders take a mutex around store+send, with hand-placed hooks INSIDE the critical section; plain/race runs with two simultaneous finders stall (inconclusive), the auto flavour treats critical sections as atomic"),
 ("m16-c13-mutex-deadlock-on-cancel", "C13", "violation", V1, "\t\t\tsimYield(\"worker.found\", wid)\n\t\t\tatomic.StoreUint32(&done, 1)\n\t\t\tsimYield(\"worker.send\", wid)\n\t\t\tresults <- nonce", "\t\t\tfindMu.Lock()\n\t\t\tdefer findMu.Unlock()\n\t\t\tif len(results) > 0 {\n\t\t\t\treturn\n\t\t\t}\n\t\t\tsimYield(\"worker.found\", wid)\n\t\t\tatomic.StoreUint32(&done, 1)\n\t\t\tsimYield(\"worker.send\", wid)\n\t\t\tresults <- nonce", "finders serialised by a mutex and only the first one sends; combined with a results channel of capacity 0 the first finder blocks in the send while holding the mutex: deadlock"),
 ("m17-c13-watcher-polls-with-ticker", "C13", "clean", V2, "\t\tselect {\n\t\tcase <-ctx.Done():\n\t\t\tsimYield(\"watcher.cancelled\", simWatcher)\n\t\t\tatomic.StoreUint32(&done, 1)\n\t\tcase <-closing:\n\t\t\treturn\n\t\t}", "\t\ttick := time.NewTicker(time.Millisecond)\n\t\tdefer tick.Stop()\n\t\tfor {\n\t\t\tselect {\n\t\t\tcase <-tick.C:\n\t\t\t\tif ctx.Err() != nil {\n\t\t\t\t\tsimYield(\"watcher.cancelled\", simWatcher)\n\t\t\t\t\tatomic.StoreUint32(&done, 1)\n\t\t\t\t\treturn\n\t\t\t\t}\n\t\t\tcase <-closing:\n\t\t\t\treturn\n\t\t\t}\n\t\t}", "the watcher polls ctx.Err() on a 1 ms ticker instead of waiting on ctx.Done(): cancellation is honoured within a millisecond, everything else unchanged - needs simulated time to pass while workers compute"),
 ("m18-c11-digest-cached-by-length", "C11", "violation", V1, "\th := Hash.New()\n\th.Write(data)\n\tpowDigest := h.Sum(nil)\n\n\t// stop when", "\tpowDigest, cached := digestCache[len(data)]\n\tif !cached {\n\t\th := Hash.New()\n\t\th.Write(data)\n\t\tpowDigest = h.Sum(nil)\n\t\tdigestCache[len(data)] = powDigest\n\t}\n\n\t// stop when", "package-level digest cache keyed by the data LENGTH only: the second Mine call of a process with different data of the same length mines for the first data - needs two calls in one process (replayed with a prelude)"),
 ("m19-c13-done-flag-in-worker-struct", "C13", "violation", V2, "type Worker struct {\n\tnumWorkers int\n}", "type Worker struct {\n\tnumWorkers int\n\tdone       uint32 // stop flag of the current Mine call\n}", "the stop flag lives in the Worker and is never reset: the SECOND Mine call on the same Worker finds it raised and returns the cancellation error although its context was never cancelled - needs a Worker reused across calls"),
 ("m23-c13-caller-sleeps-45s-after-cancelled-join", "C13", "violation", V2, "\twg.Wait()\n\tsimYield(\"mine.joined\", simCaller)\n", "\twg.Wait()\n\tif ctx.Err() != nil {\n\t\ttime.Sleep(45 * time.Second) // let the machine cool down before the next attempt\n\t}\n\tsimYield(\"mine.joined\", simCaller)\n", "after a cancelled search the caller sleeps 45 s before it returns: every goroutine of the call sits on a timer, nothing hangs, nothing leaks - only simulated time tells (slow-after-cancel)"),
 ("m24-c13-caller-sleeps-200ms-after-cancelled-join", "C13", "clean", V2, "\twg.Wait()\n\tsimYield(\"mine.joined\", simCaller)\n", "\twg.Wait()\n\tif ctx.Err() != nil {\n\t\ttime.Sleep(200 * time.Millisecond)\n\t}\n\tsimYield(\"mine.joined\", simCaller)\n", "the same with 200 ms: still a short bounded time"),
 ("m25-c13-score-trit-buffer-shared", "C13", "violation", V1P, "\t// allocate exactly one Curl block\n\tbuf := make(trinary.Trits, consts.HashTrinarySize)\n", "\t// one Curl block, allocated once\n\tbuf := scoreBuf\n", "Score keeps its 243-trit input block in a package variable: every sequential use is right; two goroutines evaluating Score at the same time (or one next to a running Mine, which calls nothing of Score - but the application does) write the same buffer: a data race, and now and then the score of the other message"),
 ("m20-c11-one-trit-fewer", "C11", "violation", V1, "\tfor i := consts.HashTrinarySize - n; i < consts.HashTrinarySize; i++ {", "\tfor i := consts.HashTrinarySize - n + 1; i < consts.HashTrinarySize; i++ {", "lane test checks one trailing trit fewer than required"),
 ("m21-c11-overshoot-zeros", "C11", "clean", V1, "\tfor zeros <= consts.HashTrinarySize && score(zeros) < targetScore {", "\tfor zeros <= consts.HashTrinarySize-1 && score(zeros) <= targetScore {", "requires one zero more at exact boundaries: slower but sound"),
 ("m22-c11-estimate-only", "C11", "violation", V1, "\tfor zeros <= consts.HashTrinarySize && score(zeros) < targetScore {\n\t\tzeros++\n\t}\n", "", "upward correction dropped: targets just above 3^k/len come out one zero short"),
 ("m30-c12-strict-compare", "C12", "violation", V2, "stateToInt(l, h, uint(i)).Cmp(target) <= 0 {", "stateToInt(l, h, uint(i)).Cmp(target) < 0 {", "a hash exactly equal to the target hash is passed over"),
 ("m31-c12-top-candidate-skipped", "C12", "violation", V2, "lo, hi := bits.TrailingZeros(^v), bits.Len(^v)", "lo, hi := bits.TrailingZeros(^v), bits.Len(^v)-1", "the highest candidate lane is never compared"),
 ("m32-c12-mask-too-loose", "C12", "violation", V2, "\trequiredTrailing := sufficientTrailing - 1", "\trequiredTrailing := sufficientTrailing - 2", "fast accept no longer implies sufficient zeros"),
 ("m33-c12-target-hash-without-plus-one", "C12", "clean", V2, "\tz.Add(z, one)\n\treturn z.Quo(maxHash, z)", "\treturn z.Quo(maxHash, z)", "accepts hashes with difficulty exactly len*target as well: still sound, never passes over more"),
 ("m34-c12-toint-without-plus-one", "C12", "violation", V2P, "\t\tif i == 0 {\n\t\t\tv++\n\t\t}\n", "", "hash integer off by one: Score and the target comparison shift"),
 ("m35-c12-first-chunk-skipped", "C12", "violation", V2P, "\tfor i := consts.HashTrinarySize/tritsPerUint64 - 1; i >= 0; i-- {", "\tfor i := consts.HashTrinarySize/tritsPerUint64 - 1; i > 0; i-- {", "lowest 40 trits ignored in toInt"),
 ("m40-c02-retry-prefix-00", "C02", "violation", S, "hmacSHA512(e.ChainCode, []byte{0x01}, right, uint32Bytes(index))", "hmacSHA512(e.ChainCode, []byte{0x00}, right, uint32Bytes(index))", "wrong prefix byte in the child retry"),
 ("m41-c02-chaincode-first-iteration", "C02", "violation", S, "step2:\n\t// Split I into two 32-byte sequences, I_L and I_R\n\tleft := inter[:32]\n\tright := inter[32:]\n", "\tfirstRight := append([]byte{}, inter[32:]...)\nstep2:\n\t// Split I into two 32-byte sequences, I_L and I_R\n\tleft := inter[:32]\n\tright := inter[32:]\n", "chain code taken from the first iteration"),
 ("m42-c02-child-retries-any-error", "C02", "violation", S, "\tif errors.Is(err, ErrInvalidKey) {\n\t\t// Set I", "\tif err != nil {\n\t\t// Set I", "permanent curve errors retried in DeriveChild"),
 ("m43-c02-fingerprint-of-self", "C02", "violation", S, "\tparentBytes := e.parent.Public().Bytes()", "\tparentBytes := e.Key.Public().Bytes()", "fingerprint of the key itself instead of its parent"),
 ("m44-c02-public-drops-parent", "C02", "violation", S, "\t\tKey:       e.Key.Public(),\n\t\tparent:    e.parent,", "\t\tKey:       e.Key.Public(),", "extended public key forgets its parent: fingerprint becomes zero"),
 ("m45-c02-master-seed-left-only", "C02", "violation", S, "\tif errors.Is(err, ErrInvalidKey) {\n\t\tseed = inter\n", "\tif errors.Is(err, ErrInvalidKey) {\n\t\tseed = left\n", "master retry feeds back I_L instead of I"),
 ("m46-c02-public-computed-once", "C02", "clean", S, "\t\th, err := hmacSHA512(e.ChainCode, e.Key.Public().Bytes(), uint32Bytes(index))", "\t\tpub := e.Key.Public()\n\t\th, err := hmacSHA512(e.ChainCode, pub.Bytes(), uint32Bytes(index))", "behaviour preserving"),
 ("m50-c06-reset-keeps-direction", "C06", "violation", C, "\tc.direction = SpongeAbsorbing\n}", "}", "Reset after squeezing leaves the sponge in squeezing direction"),
 ("m51-c06-squeeze-mutates-before-validation", "C06", "violation", C, "\tif tritsCount%consts.HashTrinarySize != 0 {\n\t\treturn consts.ErrInvalidSqueezeLength\n\t}\n", "\tif c.direction == SpongeSqueezing {\n\t\tc.transform()\n\t}\n\tif tritsCount%consts.HashTrinarySize != 0 {\n\t\treturn consts.ErrInvalidSqueezeLength\n\t}\n\tc.direction = SpongeAbsorbing\n", "a rejected Squeeze changes the state"),
 ("m52-c06-rate-not-cleared", "C06", "violation", C, "\t\tfor j := 0; j < consts.HashTrinarySize; j++ {\n\t\t\tc.l[j], c.h[j] = ^uint(0), ^uint(0)\n\t\t}\n", "", "rate not reset before a block: second and later blocks are ANDed with the old rate"),
 ("m53-c06-out-lane-mask-narrow", "C06", "violation", C, "\tidx &= bits.UintSize - 1           // hint to the compiler that shifts don't need guard code\n\tfor i := 0; i < consts.HashTrinarySize; i++ {\n\t\tdst[i]", "\tidx &= bits.UintSize/2 - 1         // hint to the compiler that shifts don't need guard code\n\tfor i := 0; i < consts.HashTrinarySize; i++ {\n\t\tdst[i]", "lanes 32..63 read lanes 0..31"),
 ("m54-c06-clone-struct-copy", "C06", "clean", C, "\treturn &Curl{\n\t\tl:         c.l,\n\t\th:         c.h,\n\t\tdirection: c.direction,\n\t}", "\tcp := *c\n\treturn &cp", "behaviour preserving"),
 ("m56-c06-squeeze-outputs-carved-one-allocation", "C06", "violation", C, "\tfor j := range dst {\n\t\tdst[j] = make(trinary.Trits, tritsCount)\n\t}\n", "\tflat := make(trinary.Trits, len(dst)*tritsCount)\n\tfor j := range dst {\n\t\tdst[j] = flat[j*tritsCount : (j+1)*tritsCount]\n\t}\n", "one allocation for all lanes' outputs, each lane a plain sub-slice: lane j's capacity runs into lane j+1's trits, a caller appending to lane j's hash overwrites lane j+1's"),
 ("m57-c06-squeeze-outputs-carved-capacity-limited", "C06", "clean", C, "\tfor j := range dst {\n\t\tdst[j] = make(trinary.Trits, tritsCount)\n\t}\n", "\tflat := make(trinary.Trits, len(dst)*tritsCount)\n\tfor j := range dst {\n\t\tdst[j] = flat[j*tritsCount : (j+1)*tritsCount : (j+1)*tritsCount]\n\t}\n", "the same with full slice expressions: behaviour preserving"),
 ("m55-c06-transform-before-every-squeeze", "C06", "violation", C, "\t\tif c.direction == SpongeSqueezing {\n\t\t\tc.transform()\n\t\t}\n\t\tc.direction = SpongeSqueezing", "\t\tif c.direction == SpongeSqueezing || i > 0 {\n\t\t\tc.transform()\n\t\t}\n\t\tif i+consts.HashTrinarySize >= tritsCount {\n\t\t\tc.direction = SpongeSqueezing\n\t\t}", "direction only recorded at the end of a multi-block squeeze: fine within one call, wrong across calls? (same result) - expected clean if equivalent"),
]
# m55 is in fact equivalent (transform happens before block i>0 either way); mark clean
M[-1] = M[-1][:2] + ("clean",) + M[-1][3:6] + ("equivalent restructuring of the transform-before-later-blocks rule",)
# m09 needs the value to be used
FIX = {"m19-c13-done-flag-in-worker-struct": [("\t\tdone    uint32\n", ""), ("atomic.StoreUint32(&done, 1)\n\t\tcase <-closing:", "atomic.StoreUint32(&w.done, 1)\n\t\tcase <-closing:"), ("sufficientTrailing, target, &done, &counter)", "sufficientTrailing, target, &w.done, &counter)"), ("\t\t\tatomic.StoreUint32(&done, 1)\n\t\t\tsimYield(\"worker.send\", wid)", "\t\t\tatomic.StoreUint32(&w.done, 1)\n\t\t\tsimYield(\"worker.send\", wid)")],
       "m18-c11-digest-cached-by-length": [("const ln3 = ", "var digestCache = map[int][]byte{}\n\nconst ln3 = ")],
       "m23-c13-caller-sleeps-45s-after-cancelled-join": [("\t\"sync/atomic\"\n", "\t\"sync/atomic\"\n\t\"time\"\n")],
       "m24-c13-caller-sleeps-200ms-after-cancelled-join": [("\t\"sync/atomic\"\n", "\t\"sync/atomic\"\n\t\"time\"\n")],
       "m25-c13-score-trit-buffer-shared": [("func trailingZeros(", "var scoreBuf = make(trinary.Trits, consts.HashTrinarySize)\n\nfunc trailingZeros(")],
       "m17-c13-watcher-polls-with-ticker": [("\t\"sync/atomic\"\n", "\t\"sync/atomic\"\n\t\"time\"\n")],
       "m15-c13-finders-serialised-by-mutex": [("\t\twg      sync.WaitGroup\n", "\t\twg      sync.WaitGroup\n\t\tfindMu  sync.Mutex\n")],
       "m16-c13-mutex-deadlock-on-cancel": [("\t\twg      sync.WaitGroup\n", "\t\twg      sync.WaitGroup\n\t\tfindMu  sync.Mutex\n"), ("results = make(chan uint64, w.numWorkers)", "results = make(chan uint64)")],
       "m14-c13-check-then-act-no-hook-between": [("results = make(chan uint64, w.numWorkers)", "results = make(chan uint64, 1)")],
       "m09-c13-read-before-join": [("\tnonce, ok := <-results\n\tif !ok {\n\t\treturn 0, ErrCancelled\n\t}\n\treturn nonce, nil", "\tif !gotFirst {\n\t\treturn 0, ErrCancelled\n\t}\n\treturn first, nil")],
       "m41-c02-chaincode-first-iteration": [("\t// The returned chain code is I_R\n\tchainCode := right", "\t// The returned chain code is I_R\n\tchainCode := firstRight")],
       "m44-c02-public-drops-parent": []}

def main():
    out = "/verif/mutants"
    only = sys.argv[1:]
    tmp = tempfile.mkdtemp(prefix="mkmut-", dir="/var/tmp")
    clone = os.path.join(tmp, "repo")
    subprocess.check_call(["git", "clone", "-q", "--shared", "/repo", clone])
    env = dict(os.environ, GOFLAGS="-mod=mod", GOPROXY="off", GOSUMDB="off")
    try:
        for (mid, prop, expect, f, old, new, note) in M:
            if only and not any(o in mid for o in only):
                continue
            subprocess.check_call(["git", "-C", clone, "checkout", "-q", "--", "."])
            p = os.path.join(clone, f)
            s = open(p).read()
            assert s.count(old) >= 1, (mid, "anchor not found")
            s = s.replace(old, new, 1)
            for (o2, n2) in FIX.get(mid, []):
                assert o2 in s, (mid, "fix anchor")
                s = s.replace(o2, n2, 1)
            open(p, "w").write(s)
            subprocess.check_call(["gofmt", "-w", p])
            r = subprocess.run(["go", "build", "./..."], cwd=clone, env=env, capture_output=True, text=True)
            if r.returncode != 0:
                print("BUILD FAILS", mid, r.stderr[:400]); continue
            r2 = subprocess.run(["go", "build", "-tags", "verif", "./..."], cwd=clone, env=env, capture_output=True, text=True)
            if r2.returncode != 0:
                print("BUILD -tags verif FAILS", mid, r2.stderr[:400]); continue
            pk = {"C13": "./pkg/pow/...", "C11": "./pkg/pow/...", "C12": "./pkg/pow/...", "C02": "./pkg/slip10/...", "C06": "./pkg/curl/..."}[prop]
            t = subprocess.run(["go", "test", "-count=1", pk], cwd=clone, env=env, capture_output=True, text=True)
            suite = "pass" if t.returncode == 0 else "FAIL"
            d = subprocess.check_output(["git", "-C", clone, "diff"], text=True)
            os.makedirs(os.path.join(out, mid), exist_ok=True)
            open(os.path.join(out, mid, "patch.diff"), "w").write(d)
            json.dump({"id": mid, "property": prop, "expect": expect, "note": note, "existing_package_tests": suite, "source": "hand-written catalogue (tools/make_mutants.py)"}, open(os.path.join(out, mid, "meta.json"), "w"), indent=1)
            print(f"{mid:45s} {prop} expect={expect:9s} existing tests: {suite}")
    finally:
        shutil.rmtree(tmp, ignore_errors=True)

main()
