#!/usr/bin/env python3
"""Complete the meta.json of every seeded change from selftest_results/sensitivity.txt: which property it breaks,
what was run to confirm it, and which check reports it (or that none does)."""
import json, re, os
res = {}
for l in open('/verif/selftest_results/sensitivity.txt'):
    m = re.match(r'(ok|FAIL)\s+(\S+)\s+(C\d+) expect=(\S+)\s+got=(.*)$', l.strip())
    if m:
        res[m.group(2)] = (m.group(1), m.group(3), m.group(4), m.group(5))
n = 0
for d in sorted(os.listdir('/verif/seeded')):
    p = f'/verif/seeded/{d}/meta.json'
    meta = json.load(open(p))
    r = res.get(d)
    if not r:
        continue
    short = d.split('-')[0]
    meta['breaks_property'] = meta['property']
    got = r[3]
    meta['what_i_ran'] = [
        f"tools/seed_verify.sh {d}   # scratch worktree of /repo HEAD: patch applies, go build + go vet + whole existing suite pass, demonstration passes without and fails with the patch -> CONFIRMED",
        f"./verif.sh selftest sensitivity {short}   # quick check of {meta['property']} against a patched clone (VERIF_REPO) -> {got}",
    ]
    if got.startswith('VIOLATION'):
        meta['caught_by'] = f"./verif.sh check {meta['property']} quick"
    else:
        meta['caught_by'] = "none (kept as a known miss, see DESIGN 8.4)"
    json.dump(meta, open(p, 'w'), indent=1)
    n += 1
print(n, 'meta.json files completed')
