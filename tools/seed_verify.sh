#!/bin/bash
# Verify a seeded change kept under /verif/seeded/<id>/ in a scratch worktree of /repo:
#   1. patch applies to /repo HEAD, builds, vets, the existing suite still passes (modulo the tests that
#      fail in the baseline as well: the two network-dependent bip39 wordlist tests);
#   2. the demonstration fails with the patch and passes without it.
# usage: seed_verify.sh <id>        (meta.json gives demo_dest and demo_cmd)
set -u
id="$1"
dir="/verif/seeded/$id"
export GOFLAGS=-mod=mod GOPROXY=off GOSUMDB=off
wt="/tmp/sv-$id-$$"
git -C /repo worktree add --detach -q "$wt" HEAD || exit 2
trap 'git -C /repo worktree remove --force "$wt" >/dev/null 2>&1' EXIT
demo_dest=$(python3 -c "import json;print(json.load(open('$dir/meta.json')).get('demo_dest','demo'))")
demo_cmd=$(python3 -c "import json;print(json.load(open('$dir/meta.json'))['demo_cmd'])")
run_demo() { (cd "$wt" && mkdir -p "$demo_dest" && cp "$dir"/demo/* "$demo_dest"/ && timeout 900 bash -c "$demo_cmd" >"/tmp/sv-$id-demo-$1.log" 2>&1; rc=$?; for f in "$dir"/demo/*; do rm -f "$demo_dest/$(basename "$f")"; done; return $rc); }
echo "== $id: demonstration WITHOUT the change (must pass)"
run_demo without; rc0=$?
echo "   exit $rc0"
(cd "$wt" && git apply "$dir/patch.diff") || { echo "patch does not apply"; exit 2; }
echo "== build / vet / existing suite WITH the change"
(cd "$wt" && go build ./... && go vet ./pkg/pow/... ./pkg/slip10/... ./pkg/curl/ ) || { echo "BUILD/VET FAILED"; exit 1; }
(cd "$wt" && go test -vet=off -count=1 -json ./... 2>/dev/null; cd "$wt/pkg/curl/asm" && go test -vet=off -count=1 -json ./... 2>/dev/null) | python3 -c "
import sys,json
bad=[]
for l in sys.stdin:
    try: e=json.loads(l)
    except Exception: continue
    if e.get('Action')=='fail':
        pkg=e.get('Package',''); t=e.get('Test')
        if pkg.endswith('bip39/internal/wordlists') and t in (None,'TestEnglish','TestJapanese'): continue
        bad.append((pkg,t))
for b in bad: print('FAILED', b)
" > "/tmp/sv-$id-suite.log"
if [ -s "/tmp/sv-$id-suite.log" ]; then echo "   SUITE OUTPUT (unexpected lines):"; cat "/tmp/sv-$id-suite.log"; suite=1; else echo "   suite passes (apart from the 2 baseline network failures)"; suite=0; fi
echo "== demonstration WITH the change (must fail)"
run_demo with; rc1=$?
echo "   exit $rc1"; tail -5 "/tmp/sv-$id-demo-with.log" | sed 's/^/   | /'
if [ $rc0 -eq 0 ] && [ $rc1 -ne 0 ] && [ $suite -eq 0 ]; then echo "== $id CONFIRMED"; rm -f /tmp/sv-$id-*.log; exit 0; fi
echo "== $id NOT CONFIRMED (without=$rc0 with=$rc1 suite=$suite)"; exit 1
