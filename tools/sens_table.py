#!/usr/bin/env python3
"""Fill the MUTANT_TABLE / SEEDED_TABLE placeholders (or regenerate the tables between the markers) in DESIGN.md
from selftest_results/sensitivity.txt and the meta.json files."""
import json, re, os, sys
res = {}
for l in open('/verif/selftest_results/sensitivity.txt'):
    m = re.match(r'(ok|FAIL)\s+(\S+)\s+(C\d+) expect=(\S+)\s+got=(.*)$', l.strip())
    if m:
        res[m.group(2)] = (m.group(1), m.group(3), m.group(4), m.group(5))
def short(got):
    got = got.replace('VIOLATION ', '')
    got = re.sub(r'race:[^;\]]*', 'race', got)
    parts = []
    for p in got.strip('[]').split('; '):
        if p not in parts: parts.append(p)
    return ', '.join('`%s`' % p for p in parts) if got != 'clean' else 'clean'
mt = ['| patch | property | expected | package tests with patch | quick check |', '|---|---|---|---|---|']
for d in sorted(os.listdir('/verif/mutants')):
    meta = json.load(open(f'/verif/mutants/{d}/meta.json'))
    r = res.get(d, ('?', '', '', 'not run'))
    mt.append(f"| `{d}` — {meta['note']} | {meta['property']} | {meta['expect']} | {meta.get('existing_package_tests','?')} | {short(r[3])} |")
st = ['| change | property | needs, in order to manifest | caught by the quick check as |', '|---|---|---|---|']
for d in sorted(os.listdir('/verif/seeded')):
    meta = json.load(open(f'/verif/seeded/{d}/meta.json'))
    r = res.get(d, ('?', '', '', 'not run'))
    st.append(f"| `{d}` | {meta['property']} | {meta['needs_to_manifest']} | {short(r[3])} |")
s = open('/verif/DESIGN.md').read()
def put(s, name, table):
    block = f"<!-- {name} begin -->\n" + '\n'.join(table) + f"\n<!-- {name} end -->"
    if name in s and f"<!-- {name} begin -->" not in s:
        return s.replace(name, block, 1)
    return re.sub(rf"<!-- {name} begin -->.*?<!-- {name} end -->", lambda m: block, s, flags=re.S)
s = put(s, 'MUTANT_TABLE', mt)
s = put(s, 'SEEDED_TABLE', st)
open('/verif/DESIGN.md', 'w').write(s)
print(len(mt) - 2, 'mutants,', len(st) - 2, 'seeded')
