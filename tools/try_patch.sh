#!/bin/bash
# Run a check against a scratch clone of /repo with a patch applied, keeping output and replay files for inspection.
# usage: try_patch.sh <patch.diff> <property> [tier]     (env VERIF_SEED, VERIF_SCALE are passed through)
set -u
patch="$(readlink -f "$1")"; prop="$2"; tier="${3:-quick}"
s="$(mktemp -d /var/tmp/verif-try-XXXXXX)"
git clone -q --shared /repo "$s/repo" && git -C "$s/repo" apply "$patch" || { echo "patch does not apply"; exit 2; }
mkdir -p "$s/verifdir" && ln -s /verif/sim "$s/verifdir/sim" && cp /verif/known_findings.json "$s/verifdir/"
VERIF_REPO="$s/repo" VERIF_DIR="$s/verifdir" /verif/bin/verif check "$prop" "$tier" > "$s/out.txt" 2>&1
echo "exit $? ; scratch $s (remove it when done)"
grep -E "VIOLATION|KNOWN-FINDING|  class: |trouble|ERROR" "$s/out.txt" | head -20
